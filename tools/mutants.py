#!/usr/bin/env python3
"""Run the registered checks against the seeded changes under /verif/seeded/<id>/.

    python3 tools/mutants.py [--tier quick] [--runs N] [id ...]

For each seeded change: `git -C /repo apply patch.diff`, run the quick check of the property it breaks
(and print which signatures fired), then ALWAYS undo with `git -C /repo checkout -- .`.
Results go to seeded/<id>/result.json and are summarised on stdout.  Never commits anything to /repo.
"""
import json, os, subprocess, sys, time

VERIF = os.path.dirname(os.path.dirname(os.path.abspath(__file__)))
REPO = "/repo"


def sh(cmd, **kw):
    return subprocess.run(cmd, shell=True, capture_output=True, text=True, **kw)


def main():
    args = sys.argv[1:]
    runs = None
    if "--runs" in args:
        i = args.index("--runs"); runs = args[i + 1]; del args[i:i + 2]
    wt_mode = "--worktree" in args
    if wt_mode:
        args.remove("--worktree")
    extra = ""
    if "--no-minimise" in args:
        args.remove("--no-minimise")
        extra = " --no-minimise"
    ids = args or sorted(d for d in os.listdir(os.path.join(VERIF, "seeded"))
                         if os.path.exists(os.path.join(VERIF, "seeded", d, "patch.diff")))
    if not wt_mode and sh(f"git -C {REPO} status --porcelain --untracked-files=no").stdout.strip():
        print("refusing: /repo has uncommitted changes"); return 2
    summary = []
    for mid in ids:
        d = os.path.join(VERIF, "seeded", mid)
        meta = json.load(open(os.path.join(d, "meta.json")))
        props = meta["property"] if isinstance(meta["property"], list) else [meta["property"]]
        if wt_mode:
            # development mode: a scratch worktree instead of /repo itself, so that several can run side by side
            target = f"/tmp/mw-{mid}"
            sh(f"git -C {REPO} worktree remove --force {target}")
            sh(f"git -C {REPO} worktree add --detach {target} HEAD")
            ap = sh(f"git -C {target} apply {d}/patch.diff")
            prefix = f"VERIF_REPO={target} "
        else:
            target = REPO
            ap = sh(f"git -C {REPO} apply {d}/patch.diff")
            prefix = ""
        if ap.returncode != 0:
            print(f"{mid}: patch does not apply: {ap.stderr.strip()[:200]}"); summary.append((mid, "no-apply")); continue
        res = {"id": mid, "checks": [], "mode": "scratch worktree" if wt_mode else "/repo",
               "verif_commit": sh(f"git -C {VERIF} log --format=%h -1").stdout.strip(),
               "repo_commit": sh(f"git -C {REPO} log --format=%h -1").stdout.strip()}
        try:
            for p in props:
                t0 = time.time()
                cmd = f"cd {VERIF} && {prefix}./check {p} --tier quick --no-evidence{extra}" + (f" --runs {runs}" if runs else "")
                r = sh(cmd, timeout=3600)
                sigs = [l.strip().split("signature: ")[1] for l in r.stdout.splitlines() if "signature: " in l]
                more = [l.strip() for l in r.stdout.splitlines() if l.strip().startswith("(+")]
                res["checks"].append({"property": p, "exit": r.returncode, "signatures": sigs, "more": more,
                                      "wall_s": round(time.time() - t0), "tail": r.stdout.splitlines()[-1:]})
                print(f"{mid}: {p} exit {r.returncode} {sigs} {more} ({time.time() - t0:.0f}s)", flush=True)
        finally:
            if wt_mode:
                sh(f"git -C {REPO} worktree remove --force {target}")
            else:
                sh(f"git -C {REPO} checkout -- .")
        res["detected"] = any(c["exit"] == 1 for c in res["checks"])
        json.dump(res, open(os.path.join(d, "result.json"), "w"), indent=1)
        summary.append((mid, "DETECTED" if res["detected"] else "missed"))
    print("\n".join(f"{m:40s} {s}" for m, s in summary))
    return 0


if __name__ == "__main__":
    sys.exit(main())
