#!/usr/bin/env python3
"""Confirm a candidate seeded change in a scratch worktree and file it under /verif/seeded/<id>/.

    python3 tools/verify_seeded.py <out_dir> <worktree> <PROP> <A|B> <id>

Confirms: the patch applies to a clean checkout; the demonstration exits non-zero with the change and 0
without it; the 208 stable baseline tests still pass with the change.  Leaves the worktree clean.
"""
import json, os, shutil, subprocess, sys, time

VERIF = os.path.dirname(os.path.dirname(os.path.abspath(__file__)))


def sh(cmd, cwd=None, timeout=3600):
    return subprocess.run(cmd, shell=True, cwd=cwd, capture_output=True, text=True, timeout=timeout)


def main():
    out, wt, prop, letter, mid = sys.argv[1:6]
    diff = os.path.join(out, f"bug_{letter}.diff")
    demo = os.path.join(out, f"demo_{letter}.py")
    meta_all = json.load(open(os.path.join(out, "meta.json")))
    meta = next(m for m in meta_all if m["id"] == letter)
    assert sh("git status --porcelain", cwd=wt).stdout.strip() == "", "worktree not clean"
    env = "NUMBA_CACHE_DIR=/tmp/seeded-nbcache PYTHONDONTWRITEBYTECODE=1 OMP_NUM_THREADS=1 OPENBLAS_NUM_THREADS=1"
    r0 = sh(f"{env} /venv/bin/python -W ignore {demo}", cwd=wt)
    ap = sh(f"git apply {diff}", cwd=wt)
    assert ap.returncode == 0, ap.stderr
    try:
        r1 = sh(f"{env} /venv/bin/python -W ignore {demo}", cwd=wt)
        junit = f"/tmp/seeded-junit-{mid}.xml"
        sh(f"{env} /venv/bin/python -m pytest -q -p no:cacheprovider --timeout=900 --continue-on-collection-errors --junitxml={junit}", cwd=wt)
        bc = sh(f"python3 {VERIF}/tools/baseline_check.py --junit {junit}")
    finally:
        sh("git checkout -- . && git clean -fdq", cwd=wt)
    ok = r0.returncode == 0 and r1.returncode != 0 and bc.returncode == 0
    print(f"{mid}: demo clean exit {r0.returncode}, demo with change exit {r1.returncode}, baseline: {bc.stdout.strip().splitlines()[0] if bc.stdout else bc.stderr[:100]} -> {'CONFIRMED' if ok else 'REJECTED'}")
    if not ok:
        print(r0.stdout[-500:], r0.stderr[-500:], r1.stdout[-500:], r1.stderr[-300:])
        return 1
    d = os.path.join(VERIF, "seeded", mid)
    os.makedirs(d, exist_ok=True)
    shutil.copy(diff, os.path.join(d, "patch.diff"))
    shutil.copy(demo, os.path.join(d, "demo.py"))
    json.dump({"id": mid, "property": prop, "origin": "independent sub-agent given only the property text and a scratch worktree",
               "summary": meta.get("summary"), "needs": meta.get("needs"), "files": meta.get("files"),
               "demo": "demo.py (exit 0 = property holds, exit 1 = violated; written against the sub-agent's scratch worktree path)",
               "confirmed": {"demo_clean_exit": r0.returncode, "demo_changed_exit": r1.returncode,
                             "baseline": bc.stdout.strip().splitlines()[0], "demo_output_with_change": r1.stdout[-600:],
                             "when": time.strftime("%Y-%m-%d %H:%M")}},
              open(os.path.join(d, "meta.json"), "w"), indent=1)
    return 0


if __name__ == "__main__":
    sys.exit(main())
