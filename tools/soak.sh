#!/bin/sh
# soak: run every check's quick tier under several VERIF_SEED values and list every signature seen
# usage: tools/soak.sh "<seeds>" "<props>"      (uses $VERIF_REPO if set)
cd "$(dirname "$0")/.." || exit 2
for seed in $1; do for p in $2; do
  echo "== $p seed $seed"
  VERIF_SEED=$seed ./check $p --no-minimise --no-evidence -v 2>&1 | grep "^  \[C0\|^C0. quick\|HARNESS" | cut -c1-420
done; done
