#!/usr/bin/env python3
"""Summarise the committed evidence files as a markdown table (DESIGN §6.1)."""
import json, os
root = os.path.join(os.path.dirname(os.path.dirname(os.path.abspath(__file__))), "evidence")
print("| check | runs (objsim + fleetsim) | events | checked events | distinct pre-states | wall s | runs/h | simulated s | faults fired |")
print("|---|---|---|---|---|---|---|---|---|")
for p in ("C01", "C02", "C03", "C04", "C05"):
    ev = json.load(open(os.path.join(root, p + ".json")))
    c = ev["coverage"]
    f = ", ".join(f"{k} {v}" for k, v in sorted(c["faults_fired"].items()))
    print(f"| {p} {ev['tier']} (seed {ev['seed']}) | {c['objsim_runs']} + {c['fleetsim_runs']} | {c['events_total']} | {c['checked_events']} | "
          f"{c['distinct_nontrivial']} | {ev['wall_s']:.0f} | {c['runs_per_hour']} | {c['simulated_seconds']:.0f} | {f} |")
print()
print("Probes (rare conditions reached, summed over the five quick runs):")
tot = {}
for p in ("C01", "C02", "C03", "C04", "C05"):
    for k, v in json.load(open(os.path.join(root, p + ".json")))["coverage"]["probes"].items():
        tot[k] = tot.get(k, 0) + v
print(", ".join(f"`{k}` {v}" for k, v in sorted(tot.items())))
