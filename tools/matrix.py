#!/usr/bin/env python3
"""Print the seeded-change / check matrix (markdown) from seeded/*/meta.json and result.json."""
import json, os
root = os.path.join(os.path.dirname(os.path.dirname(os.path.abspath(__file__))), "seeded")
print("| seeded change | breaks | needs to manifest | quick check result | signatures reported | machinery |")
print("|---|---|---|---|---|---|")
for d in sorted(os.listdir(root)):
    mp = os.path.join(root, d, "meta.json")
    if not os.path.exists(mp):
        continue
    m = json.load(open(mp))
    rp = os.path.join(root, d, "result.json")
    r = json.load(open(rp)) if os.path.exists(rp) else None
    res = "not run" if r is None else ("**caught** (exit 1)" if r["detected"] else "missed (exit 0)")
    sigs = "; ".join(s for c in (r or {}).get("checks", []) for s in c["signatures"][:2]) if r else ""
    needs = (m.get("needs") or "").replace("\n", " ").replace("|", "/")
    vc = (r or {}).get("verif_commit") or "round 1"
    print(f"| `{d}` | {m['property']} | {needs[:230]}{'…' if len(needs) > 230 else ''} | {res} | `{sigs[:160]}` | {vc} |")
