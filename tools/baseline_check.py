#!/usr/bin/env python3
"""Run the repository's pinned test suite (guard OFF) and compare with /root/.vp/BASELINE.json.

Exit 0 iff every test in BASELINE.stable_pass passed.  Usage:
    python3 tools/baseline_check.py            # run the suite, then compare
    python3 tools/baseline_check.py --junit F  # only compare an existing junit file
"""
import json, os, subprocess, sys, tempfile, xml.etree.ElementTree as ET

BASE = "/root/.vp/BASELINE.json"


def passed_ids(junit):
    ok = set()
    for tc in ET.parse(junit).getroot().iter("testcase"):
        if any(ch.tag in ("failure", "error", "skipped") for ch in tc):
            continue
        ok.add(f"{tc.get('classname')}::{tc.get('name')}")
    return ok


def main():
    base = json.load(open(BASE))
    if "--junit" in sys.argv:
        junit = sys.argv[sys.argv.index("--junit") + 1]
    else:
        fd, junit = tempfile.mkstemp(suffix=".xml", prefix="baseline-junit-")
        os.close(fd)
        env = dict(os.environ)
        env.pop("OPENDSM_EEMETER_VERIF", None)  # guard OFF
        cmd = base["cmd"].replace("<file>", junit)
        subprocess.run(cmd, shell=True, env=env, stdout=subprocess.DEVNULL, stderr=subprocess.DEVNULL)
    ok = passed_ids(junit)
    want = set(base["stable_pass"])
    missing = sorted(want - ok)
    print(f"baseline: {len(want & ok)}/{len(want)} stable tests pass; {len(ok)} passed in total")
    for m in missing[:50]:
        print("  MISSING", m)
    if "--junit" not in sys.argv:
        os.unlink(junit)
    return 1 if missing else 0


if __name__ == "__main__":
    sys.exit(main())
