"""A simulated worker: executes symbolic events against the real library and *measures*.

The worker never judges.  Every event returns an `out` dict of observations (outcome class,
digests before/after, reference results from pristine twins); oracles.py turns them into
violations.  The same class runs in-process (objsim) and inside a worker interpreter (fleetsim).

Harness memory (twins, kept caller frames, reference caches) is the oracle's, not the system's:
it survives a simulated crash, the system's slots do not.
"""
from __future__ import annotations

import contextlib
import copy
import gc
import io
import json
import math
import pickle
import random

from . import catalogue as C
from . import digest as D
from . import profiles as P
from . import seams


def _cls(e) -> str:
    return "raised:" + type(e).__name__


def _wlist(lst):
    """Warnings/disqualifications as plain dicts, in order."""
    out = []
    for w in lst or []:
        try:
            out.append({"qualified_name": w.qualified_name, "description": w.description,
                        "data": json.loads(json.dumps(w.data, default=str))})
        except Exception:  # noqa: BLE001
            out.append({"repr": repr(w)})
    return out


def _canon(txt):
    """Canonical text of a JSON document (member order and whitespace normalised; NaN stays NaN)."""
    return json.dumps(json.loads(txt), sort_keys=True)


def _names(lst):
    return [w.get("qualified_name", "?") for w in lst]


_OPEN_FDS = set()   # pipe ends of live reference servers (closed in every newly forked server)


class RefServer:
    """A reference that cannot be reached by anything the run does afterwards.

    At the moment an object enters service (fit or load returned) — or is stored — the worker forks.  The child
    keeps the whole process image of that instant: the object, every other object, every module-level and
    class-level state.  Each later reference prediction is computed in a grandchild forked from that pristine
    child, so neither the run nor earlier reference predictions can age the reference, and the reference's own
    side effects never reach the run.  (A deep copy in the same process shares class-level and module-level
    state with the object under test, and therefore agrees with a defect that lives there.)"""

    def __init__(self, worker, obj, fam):
        import os

        self.dead = False
        a_r, a_w = os.pipe()   # parent -> child
        b_r, b_w = os.pipe()   # child -> parent
        pid = os.fork()
        if pid == 0:
            try:
                try:
                    import ctypes
                    import signal as _sig

                    ctypes.CDLL("libc.so.6").prctl(1, _sig.SIGKILL)   # PR_SET_PDEATHSIG
                except Exception:  # noqa: BLE001
                    pass
                os.close(a_w)
                os.close(b_r)
                for fd in list(_OPEN_FDS):
                    try:
                        os.close(fd)
                    except OSError:
                        pass
                self._serve(worker, obj, fam, a_r, b_w)
            finally:
                os._exit(0)
        os.close(a_r)
        os.close(b_w)
        self.pid, self.w, self.r = pid, a_w, b_r
        _OPEN_FDS.update((a_w, b_r))
        self.rfile = os.fdopen(b_r, "r", closefd=False)

    @staticmethod
    def _serve(worker, obj, fam, rfd, wfd):
        import os

        rf = os.fdopen(rfd, "r")
        for line in rf:
            req = json.loads(line)
            gpid = os.fork()
            if gpid == 0:
                try:
                    try:
                        fresh = worker._fresh_data(req["recipe"])
                        with worker._quiet():
                            res = worker._do_predict(obj, fam, fresh, req["ignore"], req["agg"])
                        ans = {"cls": "returned", "parts": D.frame_parts(res)}
                    except Exception as e:  # noqa: BLE001
                        ans = {"cls": _cls(e), "parts": None}
                    os.write(wfd, (json.dumps(ans) + "\n").encode())
                finally:
                    os._exit(0)
            try:
                os.waitpid(gpid, 0)
            except ChildProcessError:
                pass

    def predict(self, recipe, ignore, agg, timeout=600.0):
        import os
        import select

        if self.dead:
            return ("reference-unavailable", None)
        try:
            os.write(self.w, (json.dumps({"recipe": recipe, "ignore": ignore, "agg": agg}) + "\n").encode())
            r, _, _ = select.select([self.r], [], [], timeout)
            if not r:
                self.close()
                return ("reference-unavailable", None)
            line = self.rfile.readline()
            if not line:
                self.close()
                return ("reference-unavailable", None)
            ans = json.loads(line)
            return (ans["cls"], ans["parts"])
        except OSError:
            self.close()
            return ("reference-unavailable", None)

    def close(self):
        import os
        import signal as _sig

        if self.dead:
            return
        self.dead = True
        for fd in (self.w, self.r):
            _OPEN_FDS.discard(fd)
            try:
                os.close(fd)
            except OSError:
                pass
        try:
            os.kill(self.pid, _sig.SIGKILL)
        except OSError:
            pass
        try:
            os.waitpid(self.pid, 0)
        except OSError:
            pass


class PristineServer(RefServer):
    """The process image *before the run did anything* (right after the zygote's warm-up / the worker's import).

    Asked to restore a document and predict with it, it answers what a process without this run's history would
    answer.  A restored object whose prediction differs from that depends on what happened in its process."""

    def __init__(self, worker):
        super().__init__(worker, None, None)

    @staticmethod
    def _serve(worker, obj, fam, rfd, wfd):
        import os

        rf = os.fdopen(rfd, "r")
        for line in rf:
            req = json.loads(line)
            gpid = os.fork()
            if gpid == 0 and req.get("what") == "fit":
                # a fresh object of the profile fitted on freshly built data, by a process without this run's history
                try:
                    try:
                        fresh = worker._fresh_data(req["recipe"])
                        with worker._quiet():
                            model = P.make_model(worker.em, req["fam"], req["profile"])
                            kw = {} if req["fam"] == "caltrack" else {"ignore_disqualification": req["ignore"]}
                            model.fit(fresh, **kw)
                            txt = model.to_json()
                        ans = {"cls": "returned", "parts": {"doc": D.text(txt), "text": txt,
                                                            "dq": _names(_wlist(getattr(model, "disqualification", None))),
                                                            "tz": str(getattr(model, "baseline_timezone", None))}}
                    except Exception as e:  # noqa: BLE001
                        ans = {"cls": _cls(e), "parts": None}
                    os.write(wfd, (json.dumps(ans) + "\n").encode())
                finally:
                    os._exit(0)
            if gpid == 0:
                try:
                    try:
                        cls = getattr(worker.em, P.FAMILIES[req["fam"]][0])
                        with worker._quiet():
                            model = cls.from_json(req["doc"])
                        fresh = worker._fresh_data(req["recipe"])
                        with worker._quiet():
                            res = worker._do_predict(model, req["fam"], fresh, req["ignore"], req["agg"])
                        ans = {"cls": "returned", "parts": D.frame_parts(res)}
                    except Exception as e:  # noqa: BLE001
                        ans = {"cls": _cls(e), "parts": None}
                    os.write(wfd, (json.dumps(ans) + "\n").encode())
                finally:
                    os._exit(0)
            try:
                os.waitpid(gpid, 0)
            except ChildProcessError:
                pass

    def fit(self, fam, profile, recipe, ignore, timeout=900.0):
        return self._ask({"what": "fit", "fam": fam, "profile": profile, "recipe": recipe, "ignore": ignore}, timeout)

    def _ask(self, req, timeout):
        import os
        import select

        if self.dead:
            return ("reference-unavailable", None)
        try:
            os.write(self.w, (json.dumps(req) + "\n").encode())
            r, _, _ = select.select([self.r], [], [], timeout)
            if not r:
                self.close()
                return ("reference-unavailable", None)
            line = self.rfile.readline()
            if not line:
                self.close()
                return ("reference-unavailable", None)
            ans = json.loads(line)
            return (ans["cls"], ans["parts"])
        except OSError:
            self.close()
            return ("reference-unavailable", None)

    def restore_predict(self, fam, doc, recipe, ignore, agg, timeout=600.0):
        import os
        import select

        if self.dead:
            return ("reference-unavailable", None)
        try:
            os.write(self.w, (json.dumps({"fam": fam, "doc": doc, "recipe": recipe, "ignore": ignore,
                                          "agg": agg}) + "\n").encode())
            r, _, _ = select.select([self.r], [], [], timeout)
            if not r:
                self.close()
                return ("reference-unavailable", None)
            line = self.rfile.readline()
            if not line:
                self.close()
                return ("reference-unavailable", None)
            ans = json.loads(line)
            return (ans["cls"], ans["parts"])
        except OSError:
            self.close()
            return ("reference-unavailable", None)


class ModelSlot:
    def __init__(self, obj, fam, profile):
        self.obj = obj
        self.fam = fam
        self.profile = profile
        self.fitted = False
        self.base_recipe = None
        self.twin = None          # deep copy taken when the object entered service (fidelity self-check only)
        self.ref = None           # RefServer forked when the object entered service (the reference twin)
        self.gen = 0              # restore generation
        self.origin_doc = None    # document it was restored from
        self.origin_text = None   # its text (restored objects)
        self.canon = False        # restored from a member-order-normalised form of the document
        self.pristine_cache = {}
        self.live_cache = {}
        self.lineage = None
        self.n_predicts = 0
        self.prev_span = "none"
        self.ref_cache = {}
        self.last_pred = None
        self.last_pred_data = None
        self.abort_seen = "no"
        self.last_state = None    # (digest, json text) after the last event that touched this object
        self.fit_doc = None       # document right after fit (gen 0)
        self.limbo = False        # an object whose last fit() was interrupted or failed: only good for another fit()
        self.gate0 = None         # gate attributes (dq names, tz) when the object entered service: the
                                  # reference machine's own memory, never re-read from the live object


class DataSlot:
    def __init__(self, obj, recipe, inputs):
        self.obj = obj
        self.recipe = recipe
        self.inputs = inputs
        self.n_uses = 0
        self.last_state = None


class Worker:
    def __init__(self, wid=0, facts=None):
        from . import env

        self.wid = wid
        self.em = env.import_library()
        self.models = {}
        self.data = {}
        self.clock = seams.VClock()
        seams.install_clock(self.clock)
        self.store_twins = {}      # oracle memory: doc id -> RefServer forked when the object was stored
        self.thread_mode = False
        self.blas = None
        self._blas_ctx = None
        self.rng_perturbed = False
        self.clock_state = "clean"
        self.last_kinds = []
        self.n_events = 0
        self.restarts = 0
        self.facts = facts or {}
        self.probes = {}
        self.pristine = PristineServer(self)   # forked before the run has done anything

    # ------------------------------------------------------------------ helpers

    def _drop_model(self, ms):
        slot = self.models.pop(ms, None)
        if slot is not None and slot.ref is not None:
            slot.ref.close()

    def _enter_service(self, slot):
        """Fork the reference for an object that just entered service (or was just found altered)."""
        if slot.ref is not None:
            slot.ref.close()
        slot.ref = RefServer(self, slot.obj, slot.fam)
        slot.ref_cache = {}

    def close(self):
        ctl = seams.native_clock()
        if ctl is not None:
            self.probe("native_clock_reads", int(ctl[0]))
            if ctl[3] != getattr(self, "_date_shift_us", 0):
                self.probe("native_clock_jump_applied")
        for ms in list(self.models):
            self._drop_model(ms)
        for srv in self.store_twins.values():
            srv.close()
        self.store_twins.clear()
        if self.pristine is not None:
            self.pristine.close()

    def probe(self, name, n=1):
        self.probes[name] = self.probes.get(name, 0) + n

    @contextlib.contextmanager
    def _quiet(self):
        with contextlib.redirect_stdout(io.StringIO()), contextlib.redirect_stderr(io.StringIO()):
            yield

    def _call(self, fn):
        """Run a library call on the current thread mode, stdout silenced."""
        with self._quiet():
            if self.thread_mode:
                self.probe("op_on_pool_thread")
                return seams.run_in_thread(fn)
            return fn()

    def model_state(self, obj):
        """(digest, json text | None, mode). The property's own yardstick is to_json()."""
        try:
            with self._quiet():
                txt = obj.to_json()
            return D.text(txt), txt, "json"
        except Exception as e:  # noqa: BLE001
            # to_json itself raises (a C01 matter, reported there): fall back to a structural digest so that
            # before/after comparisons on this object stay possible
            try:
                return "st:" + self._struct_digest(obj), None, "raises:" + type(e).__name__
            except Exception:  # noqa: BLE001
                return "unavailable", None, "raises:" + type(e).__name__

    def _struct_digest(self, obj, depth=0):
        """Digest of an object's attribute tree (frames, arrays, pydantic models, plain containers)."""
        import numpy as np
        import pandas as pd

        if depth > 6:
            return "deep"
        if isinstance(obj, (pd.DataFrame, pd.Series)):
            return D.frame(obj)
        if isinstance(obj, np.ndarray):
            return D.text(repr(obj.shape) + obj.tobytes().hex()) if obj.dtype.kind in "fiub" else D.text(repr(obj.tolist()))
        if isinstance(obj, (str, int, float, bool, type(None), bytes)):
            return repr(obj)
        if isinstance(obj, (list, tuple)):
            return D.text("[" + ",".join(self._struct_digest(x, depth + 1) for x in obj) + "]")
        if isinstance(obj, dict):
            return D.text("{" + ",".join(repr(k) + ":" + self._struct_digest(v, depth + 1)
                                         for k, v in sorted(obj.items(), key=lambda kv: repr(kv[0]))) + "}")
        if hasattr(obj, "model_dump"):
            try:
                return D.text(json.dumps(obj.model_dump(), sort_keys=True, default=str))
            except Exception:  # noqa: BLE001
                pass
        d = getattr(obj, "__dict__", None)
        if d is not None:
            keep = {k: v for k, v in d.items() if not k.startswith("_processed_meter_data")}
            return D.text(type(obj).__name__ + self._struct_digest(keep, depth + 1))
        return D.text(repr(obj))

    def data_state(self, obj) -> dict:
        parts = {}
        try:
            df = obj.df
            parts["df"] = D.frame(df)
        except Exception as e:  # noqa: BLE001
            parts["df"] = _cls(e)
        if hasattr(type(obj), "billing_df"):
            try:
                parts["billing_df"] = D.frame(obj.billing_df)
            except Exception as e:  # noqa: BLE001
                parts["billing_df"] = _cls(e)
        parts["warnings"] = D.text(D.jsonable(_wlist(getattr(obj, "warnings", None))))
        parts["disqualification"] = D.text(D.jsonable(_wlist(getattr(obj, "disqualification", None))))
        parts["tz"] = str(getattr(obj, "tz", None))
        return parts

    def _fresh_data(self, recipe):
        with self._quiet():
            return C.construct(self.em, C.build(recipe))

    @staticmethod
    def _data_fam(obj):
        n = type(obj).__name__
        mod = type(obj).__module__
        if "hourly_caltrack" in mod:
            return "caltrack"
        if n.startswith("Daily"):
            return "daily"
        if n.startswith("Billing"):
            return "billing"
        if n.startswith("Hourly"):
            return "hourly"
        return "other"

    def _presig(self, kind, slot=None):
        s = {
            "kind": kind,
            "fam": slot.fam if slot else None,
            "profile": slot.profile if slot else None,
            "gen": min(slot.gen, 2) if slot else None,
            "n_prev": min(slot.n_predicts, 2) if slot else None,
            "prev_span": slot.prev_span if slot else None,
            "abort_seen": slot.abort_seen if slot else None,
            "last2": "|".join(self.last_kinds[-2:]),
            "thread": "pool" if self.thread_mode else "main",
            "rng": "perturbed" if self.rng_perturbed else "clean",
            "clock": self.clock_state,
            "blas": self.blas or "default",
            "restarts": min(self.restarts, 2),
        }
        nontrivial = bool(self.last_kinds) and (slot is None or slot.n_predicts > 0 or slot.gen > 0
                                                or self.restarts > 0 or len(self.last_kinds) > 1)
        return s, nontrivial

    # ------------------------------------------------------------------ dispatch

    def exec(self, ev: dict, store: dict) -> dict:
        kind = ev["kind"]
        a = ev.get("args", {})
        t0 = self.clock.now
        r0 = self.clock.reads
        try:
            out = getattr(self, "op_" + kind)(a, store)
        except seams.InjectedAbort:
            raise
        except Exception as e:  # a harness failure, never a verdict
            import traceback

            out = {"class": "harness-error", "error": f"{type(e).__name__}: {e}",
                   "trace": traceback.format_exc(limit=6)}
        if out.get("class") != "harness-error":
            try:
                self._collateral(ev, out)
                self._documents_untouched(ev, out, store)
            except Exception as e:  # noqa: BLE001
                out["collateral_error"] = f"{type(e).__name__}: {e}"
        self.clock.advance({"FIT": 1.0, "PREDICT": 0.05, "PREDICT_PAIR": 0.1}.get(kind, 0.01))
        out["vclock"] = [round(t0, 6), round(self.clock.now, 6)]
        out["clock_reads"] = self.clock.reads - r0
        self.last_kinds.append(kind)
        self.n_events += 1
        return out

    def _collateral(self, ev, out):
        """After every event: every live object the event was not entitled to change must be unchanged.

        The event's own targets are judged by the op itself; here the last recorded state of each object is
        compared with its state now, so that a change made *through another object or by another call* is seen
        at the event that made it."""
        a = ev.get("args", {})
        kind = ev["kind"]
        own_m = a.get("m") if kind in ("FIT", "LOAD", "NEW_MODEL") else None
        own_d = a.get("d") if kind == "MAKE_DATA" else None
        coll = []
        for ms, slot in self.models.items():
            if not slot.fitted:
                continue
            dg, txt, _mode = self.model_state(slot.obj)
            if slot.last_state is not None and ms != own_m and dg != slot.last_state[0]:
                paths = []
                if txt and slot.last_state[1]:
                    try:
                        paths = D.top_diff(json.loads(slot.last_state[1]), json.loads(txt))
                    except Exception:  # noqa: BLE001
                        pass
                already = (kind in ("PREDICT", "INSPECT", "STORE", "SCRIBBLE_PRED") and a.get("m") == ms
                           and (out.get("model_changed") or out.get("restore_same") is False))
                if not already:
                    coll.append({"what": "model", "fam": slot.fam, "profile": slot.profile, "paths": paths,
                                 "own": a.get("m") == ms})
                    try:
                        self._enter_service(slot)
                    except Exception:  # noqa: BLE001
                        pass
            slot.last_state = (dg, txt)
        for dsid, ds in self.data.items():
            st = self.data_state(ds.obj)
            if ds.last_state is not None and dsid != own_d:
                diff = D.diff_parts(ds.last_state, st)
                already = a.get("d") == dsid and out.get("data_changed") or (
                    kind == "SCRIBBLE_DATA" and a.get("d") == dsid and out.get("changed")) or (
                    kind == "SCRIBBLE_PRED" and out.get("data_changed"))
                if diff and not already:
                    coll.append({"what": "data", "fam": self._data_fam(ds.obj), "paths": diff, "own": a.get("d") == dsid})
            ds.last_state = st
        if coll:
            out["collateral"] = coll

    def _documents_untouched(self, ev, out, store):
        """Documents the caller holds as dicts (the store keeps the very dict object it hands to from_dict) must stay as
        they were stored, whatever is done later with the objects restored from them."""
        bad = []
        for doc_id, entry in store.items():
            d = entry.get("obj")
            if d is None:
                continue
            try:
                now = json.dumps(d, sort_keys=True, default=str)
            except Exception as e:  # noqa: BLE001
                now = _cls(e)
            was = entry.get("_obj_text")
            if was is None:
                entry["_obj_text"] = now
            elif was != now:
                if not (ev["kind"] == "LOAD" and out.get("document_changed")):
                    try:
                        paths = D.top_diff(json.loads(was), json.loads(now))
                    except Exception:  # noqa: BLE001
                        paths = ["unserialisable"]
                    bad.append({"doc": doc_id, "fam": entry.get("fam"), "profile": entry.get("profile"), "paths": paths})
                entry["_obj_text"] = now
        if bad:
            out["documents_altered"] = bad

    # ------------------------------------------------------------------ schedule / fault events

    def op_CRASH_RESTART(self, a, store):
        n = len(self.models) + len(self.data)
        for ms in list(self.models):
            self._drop_model(ms)
        self.data.clear()
        gc.collect()
        self.restarts += 1
        return {"class": "done", "dropped": n}

    def op_THREAD(self, a, store):
        self.thread_mode = bool(a["on"])
        return {"class": "done"}

    def op_BLAS(self, a, store):
        import threadpoolctl

        if self._blas_ctx is not None:
            self._blas_ctx.restore_original_limits()
            self._blas_ctx = None
        n = a.get("n")
        if n:
            self._blas_ctx = threadpoolctl.threadpool_limits(limits=int(n))
        self.blas = str(n) if n else None
        return {"class": "done"}

    def op_CLOCK(self, a, store):
        how = a["how"]
        if how == "skew":
            self.clock.skew = float(a["x"])
            self.clock_state = "skewed"
        elif how == "jump":
            self.clock.pending.extend([float(a["x"])] * int(a.get("n", 1)))
            self.clock_state = "jumped"
        elif how == "stall":
            self.clock.stalled = int(a["x"])
            self.clock_state = "stalled"
        elif how == "date":
            # "today" moves by whole days / months / years between two operations: the realtime clock native readers
            # see (datetime.now, Timestamp.now, numpy "now", time()) and the Python-level wall clock move together
            ctl = seams.native_clock()
            self.clock.wall0 = getattr(self.clock, "wall0", 0.0) + float(a["x"])
            if ctl is None:
                return {"class": "done", "why": "native clock shim not loaded: Python-level wall clock only"}
            ctl[3] = ctl[3] + int(float(a["x"]) * 1_000_000)
            self._date_shift_us = getattr(self, "_date_shift_us", 0) + int(float(a["x"]) * 1_000_000)
            self.clock_state = "date-moved"
            self.probe("date_moved")
        elif how == "native_jump":
            # the clock native code reads (NLopt: gettimeofday) jumps by x seconds after n more reads
            ctl = seams.native_clock()
            if ctl is None:
                return {"class": "not-fired", "why": "native clock shim not loaded"}
            ctl[2] = int(float(a["x"]) * 1_000_000)
            ctl[1] = ctl[0] + int(a.get("n", 1))
            self.clock_state = "native-jump"
            self.probe("native_clock_jump_armed")
        return {"class": "done"}

    def op_RNG(self, a, store):
        import numpy as np

        how = a["how"]
        if how == "reseed":
            np.random.seed(int(a["x"]))
            random.seed(int(a["x"]))
        else:
            np.random.rand(int(a["x"]))
            for _ in range(int(a["x"]) % 7):
                random.random()
        self.rng_perturbed = True
        return {"class": "done"}

    # ------------------------------------------------------------------ data

    def op_MAKE_DATA(self, a, store):
        recipe = a["recipe"]
        slot = a["d"]
        self.data.pop(slot, None)
        try:
            with self._quiet():
                built = C.build(recipe)
        except Exception as e:  # noqa: BLE001
            return {"class": "catalogue-error", "error": f"{type(e).__name__}: {e}"}
        before = [D.frame_parts(x) for x in built["inputs"]]
        fbefore = [D.freq_note(x) for x in built["inputs"]]
        try:
            obj = self._call(lambda: C.construct(self.em, built))
        except Exception as e:  # noqa: BLE001
            after = [D.frame_parts(x) for x in built["inputs"]]
            changed = sorted({k.split(":")[0] for b_, a_ in zip(before, after) for k in D.diff_parts(b_, a_)})
            return {"class": _cls(e), "inputs_changed": changed, "rid": C.rid(recipe), "dfam": recipe["fam"]}
        after = [D.frame_parts(x) for x in built["inputs"]]
        changed = sorted({k.split(":")[0] for b_, a_ in zip(before, after) for k in D.diff_parts(b_, a_)})
        fafter = [D.freq_note(x) for x in built["inputs"]]
        self.data[slot] = DataSlot(obj, recipe, built["inputs"])
        st = self.data_state(obj)
        sig, nt = self._presig("MAKE_DATA")
        return {"class": "returned", "inputs_changed": changed, "freq_changed": fbefore != fafter,
                "rid": C.rid(recipe), "dfam": recipe["fam"], "state": st, "digest": D.combine(st),
                "dq": _names(_wlist(getattr(obj, "disqualification", []))),
                "warn": _names(_wlist(getattr(obj, "warnings", []))), "tz": str(getattr(obj, "tz", None)),
                "presig": sig, "nontrivial": nt}

    def op_SCRIBBLE_DATA(self, a, store):
        ds = self.data.get(a["d"])
        if ds is None:
            return {"class": "skipped"}
        fam = self._data_fam(ds.obj)
        if fam == "caltrack":
            return {"class": "skipped", "why": "caltrack data classes expose the frame itself (not claimed)"}
        before = self.data_state(ds.obj)
        import numpy as np

        # every frame the object hands out gets scribbled over: df, and billing_df where there is one (twice:
        # a memoising property hands out its kept frame only from the second access on)
        for _ in range(2):
            try:
                bdf = ds.obj.billing_df if hasattr(type(ds.obj), "billing_df") else None
            except Exception:  # noqa: BLE001
                bdf = None
            if bdf is not None:
                try:
                    for c in list(bdf.columns):
                        if bdf[c].dtype.kind == "f":
                            bdf[c] = np.nan
                    bdf["scribble"] = 1.0
                except Exception:  # noqa: BLE001
                    pass
        df = ds.obj.df
        try:
            if len(df):
                for c in list(df.columns):
                    try:
                        df[c] = np.nan if df[c].dtype.kind == "f" else df[c].iloc[::-1].to_numpy()
                    except Exception:  # noqa: BLE001
                        pass
                if df.shape[1]:
                    df.iloc[0, 0] = df.iloc[-1, 0]
            df["scribble"] = 1.0
            df.drop(columns=[df.columns[0]], inplace=True)
            df.index = df.index[::-1]
            df.index.name = "scribbled"
        except Exception as e:  # noqa: BLE001
            note = _cls(e)
        else:
            note = None
        after = self.data_state(ds.obj)
        sig, nt = self._presig("SCRIBBLE_DATA")
        return {"class": "done", "dfam": fam, "changed": D.diff_parts(before, after), "note": note,
                "presig": sig, "nontrivial": True}

    # ------------------------------------------------------------------ fit

    def op_NEW_MODEL(self, a, store):
        """An unfitted model object in a slot (so that the gate can be asked about it)."""
        self._drop_model(a["m"])
        try:
            with self._quiet():
                model = P.make_model(self.em, a["fam"], a["profile"])
        except Exception as e:  # noqa: BLE001
            return {"class": "construct-" + _cls(e)}
        slot = ModelSlot(model, a["fam"], a["profile"])
        self.models[a["m"]] = slot
        return {"class": "done"}

    def _fit_facts(self, fam, profile, ds):
        f = {"fam": fam, "profile": profile}
        if ds is None:
            f["data"] = None
            return f
        obj = ds.obj
        f["data"] = self._data_fam(obj)
        f["role"] = ds.recipe["role"]
        f["data_dq"] = bool(getattr(obj, "disqualification", None))
        try:
            cols = list(obj.df.columns)
        except Exception:  # noqa: BLE001
            cols = []
        f["has_ghi"] = "ghi" in cols
        f["needs_ghi"] = P.needs_ghi(fam, profile)
        f["wrong_type"] = not (f["data"] == P.FAMILIES[fam][1] and f["role"] == "baseline")
        return f

    def _poor_fit(self, fam, obj):
        """Poor fit according to the model's own reported numbers and thresholds."""
        try:
            if fam in ("daily", "billing"):
                cv = obj.error["CVRMSE"]
                return bool(cv > obj.settings.cvrmse_threshold), {"cvrmse": cv, "thr": obj.settings.cvrmse_threshold}
            if fam == "hourly":
                cv = obj.baseline_metrics.cvrmse_adj
                pn = obj.baseline_metrics.pnrmse_adj
                ok = (cv is not None and cv < obj.settings.cvrmse_threshold) or (
                    pn is not None and pn < obj.settings.pnrmse_threshold)
                return (not ok), {"cvrmse_adj": cv, "pnrmse_adj": pn}
        except Exception as e:  # noqa: BLE001
            return None, {"error": _cls(e)}
        return False, {}

    def _gate_attrs(self, obj):
        return {
            "dq": _wlist(getattr(obj, "disqualification", None)),
            "warnings": _wlist(getattr(obj, "warnings", None)),
            "tz": str(getattr(obj, "baseline_timezone", None)),
        }

    def op_FIT(self, a, store):
        fam, profile = a["fam"], a["profile"]
        ds = self.data.get(a["d"])
        ignore = bool(a.get("ignore"))
        reuse = bool(a.get("reuse"))
        facts = self._fit_facts(fam, profile, ds)
        facts["ignore"] = ignore
        old = self.models.get(a["m"])
        # an object that is fitted again stays in service if the new fit is *refused* by a guard (see below)
        keep_old = bool(reuse and old is not None and old.fitted and old.fam == fam and old.profile == profile
                        and ds is not None and not a.get("abort"))
        if not keep_old:
            self._drop_model(a["m"])
        if ds is None:
            return {"class": "skipped", "facts": facts}
        try:
            if reuse and old is not None and old.fam == fam and old.profile == profile:
                model = old.obj
                facts["reused"] = True
                self.probe("refit_same_object")
                if old.limbo:
                    facts["after_failed_fit"] = True
                    self.probe("refit_after_failed_fit")
            else:
                with self._quiet():
                    model = P.make_model(self.em, fam, profile)
        except Exception as e:  # noqa: BLE001
            return {"class": "construct-" + _cls(e), "facts": facts}
        ds.n_uses += 1
        before = self.data_state(ds.obj)
        data_dq_before = _wlist(getattr(ds.obj, "disqualification", None))
        data_w_before = _wlist(getattr(ds.obj, "warnings", None))
        kw = {} if fam == "caltrack" else {"ignore_disqualification": ignore}
        pargs = ()
        if a.get("pos") and fam != "caltrack":
            kw, pargs = {}, (ignore,)     # fit(data, ignore) positionally
        ab = a.get("abort")
        out = {"facts": facts, "rid": C.rid(ds.recipe), "data_digest": D.combine(before)}
        sig, nt = self._presig("FIT")
        sig["fam"], sig["profile"] = fam, profile
        out["presig"], out["nontrivial"] = sig, nt or ds.n_uses > 1
        prev_gate = old.gate0 if (reuse and old is not None and old.fitted and old.obj is model) else None
        if ab and fam != "caltrack":
            res = self._fit_aborted(a, ds, model, kw, ab, before, out)
            self._limbo(a["m"], model, fam, profile, prev_gate)
            return res
        try:
            self._call(lambda: model.fit(ds.obj, *pargs, **kw))
        except Exception as e:  # noqa: BLE001
            out["class"] = _cls(e)
            out["error"] = str(e)[:200]
            after = self.data_state(ds.obj)
            out["data_changed"] = D.diff_parts(before, after)
            if keep_old:
                refused = facts.get("wrong_type") or (facts.get("needs_ghi") and not facts.get("has_ghi")) or (
                    facts.get("data_dq") and not ignore and fam != "caltrack")
                if refused:
                    # the call was refused by a guard (wrong data type, missing feature, disqualified baseline without
                    # the override): nothing was fitted, the object is still the model of its earlier baseline and
                    # stays in service; what the gate knows about it must be what it knew before the call
                    self.probe("refit_refused_object_kept")
                    out["refused_keep"] = True
                    out["gate0"] = old.gate0
                    out["gate_after"] = {"dq": _names(_wlist(getattr(model, "disqualification", None))),
                                         "tz": str(getattr(model, "baseline_timezone", None))}
                    out["still_fitted"] = bool(getattr(model, "is_fitted", True))
                else:
                    self._drop_model(a["m"])
                    self._limbo(a["m"], model, fam, profile, prev_gate)
            else:
                self._limbo(a["m"], model, fam, profile, prev_gate)
            return out
        if keep_old:
            self._drop_model(a["m"])
        after = self.data_state(ds.obj)
        out["class"] = "returned"
        out["data_changed"] = D.diff_parts(before, after)
        slot = ModelSlot(model, fam, profile)
        slot.fitted = True
        slot.base_recipe = ds.recipe
        slot.lineage = f"w{self.wid}e{self.n_events}"
        dg, txt, mode = self.model_state(model)
        out["doc_digest"], out["doc_mode"] = dg, mode
        out["doc"] = txt
        slot.fit_doc = txt
        out["gate"] = self._gate_attrs(model)
        out["data_dq_before"] = data_dq_before
        out["data_w_before"] = data_w_before
        slot.gate0 = {"dq": _names(out["gate"]["dq"]), "tz": out["gate"]["tz"]}
        pf, nums = self._poor_fit(fam, model)
        out["poor_fit"], out["fit_numbers"] = pf, nums
        if (facts.get("reused") or a.get("vs_fresh") or ds.n_uses > 1) and fam != "caltrack" and self.pristine is not None \
                and mode == "json":
            # the same key by a fresh object in a process that has seen nothing of this run: same document, same gate state
            pcls, pp = self.pristine.fit(fam, profile, ds.recipe, ignore)
            if pcls != "reference-unavailable":
                self.probe("fit_compared_with_pristine_process")
                out["fresh_class"] = pcls
                if pcls == "returned":
                    out["fresh_doc_same"] = pp["doc"] == dg
                    if not out["fresh_doc_same"]:
                        try:
                            # as documents: an object restored earlier writes -100.0 where a fresh one writes -100
                            out["fresh_doc_same"] = D.value_equal(json.loads(pp["text"]), json.loads(txt))
                        except Exception:  # noqa: BLE001
                            pass
                    if not out["fresh_doc_same"]:
                        try:
                            out["fresh_doc_paths"] = D.top_diff(json.loads(pp["text"]), json.loads(txt))
                        except Exception:  # noqa: BLE001
                            out["fresh_doc_paths"] = []
                    out["fresh_gate"] = {"dq": pp["dq"], "tz": pp["tz"]}
        if pf:
            self.probe("dq_by_poor_fit")
        try:
            slot.twin = copy.deepcopy(model)
            tdg, _, _ = self.model_state(slot.twin)
            out["twin_ok"] = tdg == dg
        except Exception as e:  # noqa: BLE001
            out["twin_ok"] = False
            out["twin_error"] = _cls(e)
        self.models[a["m"]] = slot
        self._enter_service(slot)
        return out

    def _limbo(self, ms, model, fam, profile, prev_gate=None):
        """The object of a fit() that was interrupted or failed stays in its slot, good for one thing only: being
        handed to fit() again (what a batch job that catches the exception and moves on to the next meter does)."""
        slot = ModelSlot(model, fam, profile)
        slot.limbo = True
        slot.gate0 = prev_gate     # what the gate knew about the object before the fit that did not complete
        self.models[ms] = slot
        self.probe("object_kept_after_failed_fit")

    def _fit_aborted(self, a, ds, model, kw, ab, before, out):
        # dry run on deep copies to learn how many library frames the call enters
        try:
            m2, d2 = copy.deepcopy(model), copy.deepcopy(ds.obj)
            n, dry = seams.count_entries(lambda: self._call(lambda: m2.fit(d2, **kw)))
        except Exception as e:  # noqa: BLE001
            n, dry = 0, _cls(e)
        k = 1 + int(math.floor(ab["q"] * max(n, 1)))
        mon, _res, err = seams.run_with_abort(lambda: self._call(lambda: model.fit(ds.obj, **kw)), k, ab["exc"])
        after = self.data_state(ds.obj)
        out.update({"class": "aborted" if mon.fired else ("returned" if err is None else _cls(err)),
                    "abort": {"entries": n, "k": k, "fired": mon.fired, "where": mon.where, "dry": dry,
                              "surfaced": None if err is None else type(err).__name__},
                    "data_changed": D.diff_parts(before, after), "aborted_op": True})
        if mon.fired:
            self.probe("abort_fired_in_fit")
            if err is None:
                self.probe("abort_swallowed_by_library")
        # the state of a model after an aborted fit is undefined by every property: slot stays empty
        return out

    # ------------------------------------------------------------------ predict

    def _predict_facts(self, slot, ds):
        obj = slot.obj
        f = {"fam": slot.fam, "profile": slot.profile, "fitted": bool(slot.fitted), "gen": slot.gen}
        f["model_dq"] = bool(getattr(obj, "disqualification", None))
        if slot.gate0 is not None:
            f["gate0"] = slot.gate0
            f["gate_now"] = {"dq": _names(_wlist(getattr(obj, "disqualification", None))),
                             "tz": str(getattr(obj, "baseline_timezone", None))}
        f["data"] = self._data_fam(ds.obj)
        f["model_tz"] = str(getattr(obj, "baseline_timezone", None))
        f["data_tz"] = str(getattr(ds.obj, "tz", None))
        f["foreign_type"] = f["data"] != P.FAMILIES[slot.fam][1]
        try:
            cols = list(ds.obj.df.columns)
        except Exception:  # noqa: BLE001
            cols = []
        feats = None
        if slot.fam == "hourly" and slot.fitted:
            feats = list(getattr(obj, "_ts_features", []) or [])
        f["missing_feature"] = bool(feats) and any(c not in cols for c in feats)
        f["has_ghi"] = "ghi" in cols
        return f

    def _do_predict(self, obj, fam, data_obj, ignore, agg, pos=False):
        if fam == "caltrack":
            return obj.predict(data_obj)
        if pos:
            # the documented parameter order, passed positionally
            if fam == "billing":
                return obj.predict(data_obj, agg, ignore)
            return obj.predict(data_obj, ignore)
        if fam == "billing":
            return obj.predict(data_obj, aggregation=agg, ignore_disqualification=ignore)
        return obj.predict(data_obj, ignore_disqualification=ignore)

    def _ref_predict(self, slot, twin, recipe, ignore, agg, cache=None, key=None):
        """Prediction of a pristine twin on a freshly built data object: (class, parts|None)."""
        if cache is not None and key in cache:
            return cache[key]
        try:
            tw = copy.deepcopy(twin)  # always a fresh copy: a reference that predicts must not age the twin
            fresh = self._fresh_data(recipe)
            with self._quiet():
                res = self._do_predict(tw, slot.fam, fresh, ignore, agg)
            ref = ("returned", D.frame_parts(res))
        except Exception as e:  # noqa: BLE001
            ref = (_cls(e), None)
        if cache is not None:
            cache[key] = ref
        return ref

    def op_PREDICT(self, a, store):
        slot = self.models.get(a["m"])
        ds = self.data.get(a["d"])
        if slot is None or ds is None:
            return {"class": "skipped"}
        if slot.limbo:
            # an object whose re-fit did not complete.  Nothing is promised about what it predicts, except the gate's
            # fail-closed side: if it was a disqualified model before, it must not predict without the override
            if slot.gate0 is None or not slot.gate0.get("dq") or bool(a.get("ignore")) or slot.fam == "caltrack":
                return {"class": "skipped"}
            try:
                self._call(lambda: self._do_predict(slot.obj, slot.fam, ds.obj, False, a.get("agg")))
                cls_ = "returned"
            except Exception as e:  # noqa: BLE001
                cls_ = _cls(e)
            self.probe("predict_after_interrupted_refit")
            return {"class": cls_, "limbo_probe": {"fam": slot.fam, "profile": slot.profile, "prev_dq": slot.gate0["dq"]}}
        ignore = bool(a.get("ignore"))
        agg = a.get("agg")
        facts = self._predict_facts(slot, ds)
        facts["ignore"] = ignore
        sig, nt = self._presig("PREDICT", slot)
        sig["span"] = ds.recipe.get("span", "baseline")
        sig["obs"] = ds.recipe.get("obs")
        out = {"facts": facts, "rid": C.rid(ds.recipe), "presig": sig, "nontrivial": nt,
               "lineage": slot.lineage, "gen": slot.gen, "origin_doc": slot.origin_doc}
        ds.n_uses += 1
        m_before, m_txt_before, mode = self.model_state(slot.obj) if slot.fitted else ("unfitted", None, "n/a")
        d_before = self.data_state(ds.obj)
        out["model_digest"] = m_before
        out["state_mode"] = mode
        ab = a.get("abort")
        aborted = False
        res = None
        if ab and slot.fam != "caltrack" and slot.fitted:
            try:
                m2, d2 = copy.deepcopy(slot.obj), copy.deepcopy(ds.obj)
                n, dry = seams.count_entries(lambda: self._call(lambda: self._do_predict(m2, slot.fam, d2, ignore, agg)))
            except Exception as e:  # noqa: BLE001
                n, dry = 0, _cls(e)
            k = 1 + int(math.floor(ab["q"] * max(n, 1)))
            mon, res, err = seams.run_with_abort(
                lambda: self._call(lambda: self._do_predict(slot.obj, slot.fam, ds.obj, ignore, agg)), k, ab["exc"])
            out["abort"] = {"entries": n, "k": k, "fired": mon.fired, "where": mon.where, "dry": dry,
                            "surfaced": None if err is None else type(err).__name__}
            aborted = mon.fired
            if mon.fired:
                self.probe("abort_fired_in_predict")
                slot.abort_seen = "predict"
                if err is None:
                    self.probe("abort_swallowed_by_library")
            out["class"] = "aborted" if mon.fired else ("returned" if err is None else _cls(err))
            if not mon.fired and err is not None:
                res = None
        else:
            try:
                res = self._call(lambda: self._do_predict(slot.obj, slot.fam, ds.obj, ignore, agg, bool(a.get("pos"))))
                out["class"] = "returned"
            except Exception as e:  # noqa: BLE001
                out["class"] = _cls(e)
                out["error"] = str(e)[:200]
                if slot.fitted and not facts["foreign_type"]:
                    self.probe("natural_abort_inside_predict")
        out["aborted_op"] = aborted
        # invariants: model and data untouched
        if slot.fitted:
            m_after, m_txt_after, _ = self.model_state(slot.obj)
            out["model_changed"] = m_after != m_before
            if out["model_changed"]:
                paths = []
                if m_txt_before and m_txt_after:
                    paths = D.top_diff(json.loads(m_txt_before), json.loads(m_txt_after))
                out["model_changed_paths"] = paths
                # re-synchronise so that one defect does not cascade through the rest of the run
                try:
                    self._enter_service(slot)
                    out["resynced"] = True
                except Exception:  # noqa: BLE001
                    pass
        d_after = self.data_state(ds.obj)
        out["data_changed"] = D.diff_parts(d_before, d_after)
        if out["class"] == "returned" and not aborted:
            parts = D.frame_parts(res)
            out["frame"] = D.combine(parts)
            out["rows"] = int(len(res))
            slot.last_pred = res
            slot.last_pred_data = a["d"]
            try:
                out["n_pred_finite"] = int(res["predicted"].notna().sum())
            except Exception:  # noqa: BLE001
                out["n_pred_finite"] = None
            # independent reader: the documented curve evaluated from the JSON text alone (daily/billing, daily rows)
            if slot.fam in ("daily", "billing") and agg in (None, "none") and m_txt_before:
                try:
                    from . import reader

                    out["reader"] = reader.check(m_txt_before, res)
                except Exception as e:  # noqa: BLE001
                    out["reader"] = {"checked": 0, "bad": [], "error": _cls(e) + ": " + str(e)[:120]}
        else:
            parts = None
        # references (only meaningful for a fitted model; skipped after an injected abort of this very op)
        if slot.fitted and slot.ref is not None and not aborted and not out.get("resynced"):
            key = (C.rid(ds.recipe), ignore, agg)
            if key not in slot.ref_cache:
                slot.ref_cache[key] = slot.ref.predict(ds.recipe, ignore, agg)
            rcls, rparts = slot.ref_cache[key]
            if rcls == "reference-unavailable":
                out["ref_unavailable"] = True
            else:
                out["ref_class"] = rcls
                if rcls == "returned" and parts is not None:
                    out["ref_diff"] = sorted({k for k in D.diff_parts(parts, rparts)})
            if slot.origin_text is not None and self.pristine is not None and m_before == D.text(slot.origin_text):
                # the object still serialises to its document: a pristine process restoring that document is a
                # reference that shares nothing with this process
                if key not in slot.pristine_cache:
                    slot.pristine_cache[key] = self.pristine.restore_predict(slot.fam, slot.origin_text, ds.recipe,
                                                                              ignore, agg)
                pcls, pparts = slot.pristine_cache[key]
                if pcls != "reference-unavailable":
                    out["pristine_class"] = pcls
                    if pcls == "returned" and parts is not None:
                        out["pristine_diff"] = sorted({k for k in D.diff_parts(parts, pparts)})
            if slot.gen >= 1 and slot.lineage and parts is not None:
                # the original object, if it is still alive and was not fitted again: what it answers NOW
                orig = next((o for o in self.models.values() if o is not slot and o.gen == 0 and o.fitted
                             and o.lineage == slot.lineage and not o.limbo), None)
                if orig is not None and (slot.fam != "caltrack" or key not in slot.live_cache):
                    try:
                        with self._quiet():
                            ores = self._do_predict(copy.deepcopy(orig.obj), slot.fam, self._fresh_data(ds.recipe), ignore, agg)
                        odiff = sorted(D.diff_parts(parts, D.frame_parts(ores)))
                        slot.live_cache[key] = True
                        self.probe("restored_compared_with_live_original")
                        if odiff:
                            out["live_original_diff"] = odiff
                    except Exception as e:  # noqa: BLE001
                        out["live_original_class"] = _cls(e)
            if slot.origin_doc is not None and slot.origin_doc in self.store_twins:
                scls, sparts = self.store_twins[slot.origin_doc].predict(ds.recipe, ignore, agg)
                if scls != "reference-unavailable":
                    out["store_ref_class"] = scls
                    if scls == "returned" and parts is not None:
                        out["store_ref_diff"] = sorted({k for k in D.diff_parts(parts, sparts)})
            elif slot.origin_doc is not None and store.get(slot.origin_doc, {}).get("panel"):
                pan = store[slot.origin_doc]["panel"].get(C.rid(ds.recipe) + f"|{ignore}|{agg}")
                if pan is not None:
                    out["store_ref_class"] = pan[0]
                    if pan[0] == "returned" and parts is not None:
                        out["store_ref_diff"] = [] if pan[1] == D.combine(parts) else ["frame"]
        slot.n_predicts += 1
        slot.prev_span = ds.recipe.get("span", "baseline")
        return out

    def op_ABORT_SWEEP(self, a, store):
        """Fault enumeration for one predict: deliver an exception at EVERY library-frame entry of the call (on deep
        copies of the model, one per crash point) and compare the copy's serialised form before and after."""
        slot = self.models.get(a["m"])
        ds = self.data.get(a["d"])
        if slot is None or ds is None or not slot.fitted or slot.fam == "caltrack":
            return {"class": "skipped"}
        ignore = True
        exc = a.get("exc", "MemoryError")
        base_dg, base_txt, mode = self.model_state(slot.obj)
        d_before = self.data_state(ds.obj)
        try:
            m2 = copy.deepcopy(slot.obj)
            n, dry = seams.count_entries(lambda: self._call(lambda: self._do_predict(m2, slot.fam, ds.obj, ignore, None)))
        except Exception as e:  # noqa: BLE001
            return {"class": "skipped", "why": _cls(e)}
        cap = int(a.get("cap", 160))
        ks = list(range(1, n + 1)) if n <= cap else sorted({1 + (i * n) // cap for i in range(cap)})
        bad = []
        later = []
        fired = swallowed = 0
        try:
            with self._quiet():
                base_res = D.frame(self._do_predict(copy.deepcopy(slot.obj), slot.fam, ds.obj, ignore, None))
        except Exception as e:  # noqa: BLE001
            base_res = _cls(e)
        for k in ks:
            mk = copy.deepcopy(slot.obj)
            mon, _res, err = seams.run_with_abort(
                lambda: self._call(lambda: self._do_predict(mk, slot.fam, ds.obj, ignore, None)), k, exc)
            if not mon.fired:
                continue
            fired += 1
            if err is None:
                swallowed += 1
            dg, txt, _ = self.model_state(mk)
            if dg != base_dg:
                paths = D.top_diff(json.loads(base_txt), json.loads(txt)) if (base_txt and txt) else ["state"]
                bad.append({"k": k, "where": mon.where, "paths": paths})
                continue
            # state that to_json does not show: the object must still answer as before
            try:
                with self._quiet():
                    again = D.frame(self._do_predict(mk, slot.fam, ds.obj, ignore, None))
            except Exception as e:  # noqa: BLE001
                again = _cls(e)
            if again != base_res:
                later.append({"k": k, "where": mon.where, "got": again if again.startswith("raised") else "frame"})
        d_after = self.data_state(ds.obj)
        self.probe("abort_sweep_points", fired)
        if swallowed:
            self.probe("abort_swallowed_by_library", swallowed)
        sig, nt = self._presig("ABORT_SWEEP", slot)
        return {"class": "done", "fam": slot.fam, "profile": slot.profile, "entries": n, "points": len(ks), "fired": fired,
                "dry": dry, "altered": bad[:6], "n_altered": len(bad), "later_differs": later[:6],
                "data_changed": D.diff_parts(d_before, d_after),
                "presig": sig, "nontrivial": True, "abort": {"fired": fired > 0, "sweep": True}}

    def op_FIT_ABORT_SWEEP(self, a, store):
        """Sampled crash points of one fit (log-spaced and evenly spaced library-frame entries): the data object must be
        untouched whichever point the exception is delivered at.  The model of an aborted fit is discarded."""
        ds = self.data.get(a["d"])
        fam, profile = a["fam"], a["profile"]
        if ds is None or fam == "caltrack":
            return {"class": "skipped"}
        facts = self._fit_facts(fam, profile, ds)
        if facts.get("wrong_type"):
            return {"class": "skipped"}
        kw = {"ignore_disqualification": True}
        before = self.data_state(ds.obj)
        try:
            with self._quiet():
                m0 = P.make_model(self.em, fam, profile)
            d0 = copy.deepcopy(ds.obj)
            n, dry = seams.count_entries(lambda: self._call(lambda: m0.fit(d0, **kw)))
        except Exception as e:  # noqa: BLE001
            return {"class": "skipped", "why": _cls(e)}
        npts = int(a.get("points", 12))
        ks = sorted({max(1, int(round(n ** (i / (npts - 1))))) for i in range(npts)} |
                    {1 + (i * n) // npts for i in range(npts)})
        changed = []
        fired = 0
        for k in ks:
            with self._quiet():
                mk = P.make_model(self.em, fam, profile)
            mon, _res, err = seams.run_with_abort(lambda: self._call(lambda: mk.fit(ds.obj, **kw)), k, a.get("exc", "MemoryError"))
            if not mon.fired:
                continue
            fired += 1
            diff = D.diff_parts(before, self.data_state(ds.obj))
            if diff:
                changed.append({"k": k, "where": mon.where, "attrs": diff})
                break
        self.probe("fit_abort_sweep_points", fired)
        sig, nt = self._presig("FIT_ABORT_SWEEP")
        sig["fam"], sig["profile"] = fam, profile
        return {"class": "done", "fam": fam, "profile": profile, "entries": n, "points": len(ks), "fired": fired,
                "data_altered": changed, "presig": sig, "nontrivial": True, "abort": {"fired": fired > 0, "sweep": True}}

    def op_SERIAL_ABORT_SWEEP(self, a, store):
        """Fault enumeration over the two serialisation calls of one model.

        (1) to_json interrupted at every library-frame entry (one deep copy per crash point): the copy must serialise
        as before afterwards.  (2) from_dict interrupted at every entry, on a dict the caller holds: that dict — the
        durable document — must be unchanged, and restoring from it afterwards must give the same document again
        (nothing half-registered at class or module level)."""
        slot = self.models.get(a["m"])
        if slot is None or not slot.fitted:
            return {"class": "skipped"}
        exc = a.get("exc", "MemoryError")
        base_dg, base_txt, mode = self.model_state(slot.obj)
        if base_txt is None:
            return {"class": "skipped", "why": mode}
        cap = int(a.get("cap", 12 if slot.fam == "caltrack" else 160))
        cls = getattr(self.em, P.FAMILIES[slot.fam][0])
        out = {"class": "done", "fam": slot.fam, "profile": slot.profile, "gen": slot.gen}

        def points(n):
            return list(range(1, n + 1)) if n <= cap else sorted({1 + (i * n) // cap for i in range(cap)})

        # ---- (1) to_json
        try:
            m2 = copy.deepcopy(slot.obj)
            n1, dry1 = seams.count_entries(lambda: self._call(lambda: m2.to_json()))
        except Exception as e:  # noqa: BLE001
            return {"class": "skipped", "why": _cls(e)}
        fired = 0
        altered = []
        for k in points(n1):
            mk = copy.deepcopy(slot.obj)
            mon, _res, _err = seams.run_with_abort(lambda: self._call(lambda: mk.to_json()), k, exc)
            if not mon.fired:
                continue
            fired += 1
            dg, txt, md = self.model_state(mk)
            if dg != base_dg:
                paths = D.top_diff(json.loads(base_txt), json.loads(txt)) if txt else [md]
                altered.append({"k": k, "where": mon.where, "paths": paths})
        out.update({"store_entries": n1, "store_fired": fired, "store_altered": altered[:6]})
        # ---- (2) from_dict on a document the caller holds
        ref = json.dumps(json.loads(base_txt), sort_keys=True)
        try:
            d0 = json.loads(base_txt)
            n2, dry2 = seams.count_entries(lambda: self._call(lambda: cls.from_dict(d0)))
        except Exception as e:  # noqa: BLE001
            out["load_skipped"] = _cls(e)
            n2 = 0
        fired2 = 0
        doc_altered = []
        later = []
        # what an undisturbed restore of this document serialises to (the yardstick for restores made after an abort)
        try:
            _dg0, t0_, _md0 = self.model_state(self._call(lambda: cls.from_dict(json.loads(base_txt))))
            ref_restore = json.dumps(json.loads(t0_), sort_keys=True) if t0_ is not None else None
        except Exception:  # noqa: BLE001
            ref_restore = None
        for k in points(n2):
            d = json.loads(base_txt)
            mon, _res, _err = seams.run_with_abort(lambda: self._call(lambda: cls.from_dict(d)), k, exc)
            if not mon.fired:
                continue
            fired2 += 1
            try:
                now = json.dumps(d, sort_keys=True, default=str)
            except Exception as e:  # noqa: BLE001
                now = _cls(e)
            if now != ref:
                try:
                    paths = D.top_diff(json.loads(ref), json.loads(now))
                except Exception:  # noqa: BLE001
                    paths = ["unserialisable"]
                doc_altered.append({"k": k, "where": mon.where, "paths": paths})
                continue
            if ref_restore is not None and (slot.fam != "caltrack" or fired2 <= 3):
                try:
                    again = self._call(lambda: cls.from_dict(json.loads(base_txt)))
                    _dg, t2, md = self.model_state(again)
                    same = t2 is not None and json.dumps(json.loads(t2), sort_keys=True) == ref_restore
                    if not same:
                        later.append({"k": k, "where": mon.where, "got": md})
                except Exception as e:  # noqa: BLE001
                    later.append({"k": k, "where": mon.where, "got": _cls(e)})
        self.probe("serial_abort_points", fired + fired2)
        sig, nt = self._presig("SERIAL_ABORT_SWEEP", slot)
        out.update({"load_entries": n2, "load_fired": fired2, "doc_altered": doc_altered[:6], "later_load": later[:6],
                    "presig": sig, "nontrivial": True, "abort": {"fired": (fired + fired2) > 0, "sweep": True}})
        return out

    def op_PREDICT_GRID(self, a, store):
        """Daily/billing: predict on a temperature sweep from -60 to 140 F that also contains, for every sub-model of
        the model's own document, the exact balance points and segment limits (and their float neighbours)."""
        import numpy as np

        slot = self.models.get(a["m"])
        if slot is None or not slot.fitted or slot.fam not in ("daily", "billing"):
            return {"class": "skipped"}
        dg, txt, mode = self.model_state(slot.obj)
        if txt is None:
            return {"class": "skipped"}
        temps = list(np.arange(-60.0, 140.5, 0.5))
        try:
            doc = json.loads(txt)
            for sm in doc["submodels"].values():
                co, tc = sm["coefficients"], sm["temperature_constraints"]
                for v in (co.get("hdd_bp"), co.get("cdd_bp"), tc.get("T_min"), tc.get("T_max"), tc.get("T_min_seg"),
                          tc.get("T_max_seg")):
                    if isinstance(v, (int, float)) and v == v and abs(v) < 1e4:
                        temps.extend([float(v), float(np.nextafter(v, -np.inf)), float(np.nextafter(v, np.inf))])
        except Exception:  # noqa: BLE001
            pass
        tz = (slot.base_recipe or {}).get("tz") or str(getattr(slot.obj, "baseline_timezone", None) or "UTC")
        recipe = {"fam": P.FAMILIES[slot.fam][1], "role": "reporting", "span": "grid", "tz": tz, "obs": "present",
                  "temps": [float(t) for t in temps], "mid": (slot.base_recipe or {}).get("mid", 0)}
        dslot = a.get("d", 5)
        mk = self.op_MAKE_DATA({"d": dslot, "recipe": recipe}, store)
        if mk.get("class") != "returned":
            return {"class": "skipped", "why": mk.get("class")}
        out = self.op_PREDICT({"m": a["m"], "d": dslot, "ignore": True}, store)
        out["grid_points"] = len(temps)
        self.probe("grid_predictions")
        return out

    def op_PREDICT_PAIR(self, a, store):
        """C05: two twins of the model's *current* state, reporting sets differing only in `observed`."""
        import numpy as np

        slot = self.models.get(a["m"])
        if slot is None or not slot.fitted:
            return {"class": "skipped"}
        rA = dict(a["recipe"])
        rB = dict(rA)
        rB["obs"] = a["alter"]
        pagg = a.get("agg") if slot.fam == "billing" else None
        sig, nt = self._presig("PREDICT_PAIR", slot)
        sig["span"], sig["alter"] = rA.get("span"), a["alter"]
        out = {"fam": slot.fam, "profile": slot.profile, "alter": a["alter"], "agg": pagg, "presig": sig, "nontrivial": True,
               "covers": bool(slot.base_recipe and C.covers_full_year(slot.base_recipe)),
               "history": {"n_prev": slot.n_predicts, "prev_span": slot.prev_span, "gen": slot.gen}}
        res = []
        seq = bool(a.get("seq"))
        out["seq"] = seq
        shared = copy.deepcopy(slot.obj) if seq else None
        # sequential pairs: ONE copy predicts the altered set first and the reference set afterwards
        order = (rB, rA) if seq else (rA, rB)
        for r in order:
            try:
                fresh = self._fresh_data(r)
            except Exception as e:  # noqa: BLE001  the data class refused the frame: no pair to compare
                out["class"] = "data-error"
                out["error"] = _cls(e)
                return out
            try:
                tw = shared if seq else copy.deepcopy(slot.obj)
                with self._quiet():
                    res.append(("returned", self._do_predict(tw, slot.fam, fresh, True, pagg)))
            except Exception as e:  # noqa: BLE001
                res.append((_cls(e), None))
                out.setdefault("errors", []).append(str(e)[:160])
        if seq:
            res = [res[1], res[0]]   # back to (reference set, altered set)
            # the reference set once more, by a copy that has not seen the altered usage: the two answers to the
            # same reporting set must be the same frame (missing predictions included)
            try:
                with self._quiet():
                    alone = self._do_predict(copy.deepcopy(slot.obj), slot.fam, self._fresh_data(rA), True, pagg)
                if res[0][1] is not None:
                    out["after_altered_same"] = D.frame(alone) == D.frame(res[0][1])
                    if not out["after_altered_same"]:
                        out["after_altered_diff"] = sorted(D.diff_parts(D.frame_parts(alone), D.frame_parts(res[0][1])))
            except Exception as e:  # noqa: BLE001
                out["after_altered_same"] = None if res[0][1] is None else False
                out["after_altered_diff"] = [_cls(e)]
        out["classes"] = [res[0][0], res[1][0]]
        out["class"] = "done"
        if res[0][1] is not None and res[1][1] is not None:
            A, B = res[0][1], res[1][1]
            common = A.index.intersection(B.index)
            out["index_equal"] = bool(A.index.equals(B.index))
            pa = A.loc[common, "predicted"].to_numpy(dtype="float64")
            pb = B.loc[common, "predicted"].to_numpy(dtype="float64")
            both = np.isfinite(pa) & np.isfinite(pb)
            out["n_both"] = int(both.sum())
            # families whose prediction does not need usage at all: a timestamp predicted in one set must be predicted
            # in the other as well
            if slot.fam in ("hourly", "caltrack"):
                out["n_missing"] = int((np.isfinite(pa) != np.isfinite(pb)).sum())
            neq = both & (pa != pb)
            out["n_differ"] = int(neq.sum())
            out["max_abs_diff"] = float(np.max(np.abs(pa[neq] - pb[neq]))) if neq.any() else 0.0
            extra = []
            if slot.fam in ("daily", "billing"):
                for c in ("heating_load", "cooling_load", "model_split", "model_type", "predicted_unc"):
                    if c in A.columns and c in B.columns:
                        xa = A.loc[common, c].to_numpy()[both]
                        xb = B.loc[common, c].to_numpy()[both]
                        if xa.dtype.kind == "f":
                            bad = ~((xa == xb) | (np.isnan(xa) & np.isnan(xb)))
                        else:
                            bad = xa != xb
                        if bad.any():
                            extra.append(c)
            out["other_cols_differ"] = extra
            # attribution: does the difference enter through the data class (weather columns differ) or the model?
            via = []
            for c in ("temperature", "ghi"):
                if c in A.columns and c in B.columns:
                    xa = A.loc[common, c].to_numpy(dtype="float64")[both]
                    xb = B.loc[common, c].to_numpy(dtype="float64")[both]
                    if (~((xa == xb) | (np.isnan(xa) & np.isnan(xb)))).any():
                        via.append(c)
            out["via_data"] = via
            if slot.fam in ("daily", "billing") and neq.any():
                # where in the period do the differing rows lie? (the recorded finding about the day grid of the data
                # classes is confined to the rows named here; a dependence elsewhere is something else)
                try:
                    offs = np.array([(t.utcoffset().total_seconds() if t.utcoffset() is not None else 0.0) for t in common])
                    n = len(common)
                    chg = np.flatnonzero(np.diff(offs) != 0) + 1          # first row of every new UTC offset
                    near = np.zeros(n, dtype=bool)
                    for c in chg:
                        near[max(0, c - 2):min(n, c + 2)] = True
                    kinds = set()
                    for i in np.flatnonzero(neq):
                        if near[i]:
                            kinds.add("transition")
                        elif offs[i] != offs[0]:
                            kinds.add("shifted")
                        elif i <= 1 or i >= n - 2:
                            kinds.add("edge")
                        else:
                            kinds.add("plain")
                    out["rows_where"] = "+".join(sorted(kinds))
                except Exception as e:  # noqa: BLE001
                    out["rows_where"] = "unclassified"
            if slot.fam in ("daily", "billing"):
                try:
                    out["reads"] = "midnight" if bool((A.index.hour == 0).all() and (B.index.hour == 0).all()) else "offset"
                except Exception:  # noqa: BLE001
                    out["reads"] = "?"
            if out["n_both"] and slot.fam == "hourly":
                self.probe("pair_on_hourly")
        return out

    def op_SCRIBBLE_PRED(self, a, store):
        slot = self.models.get(a["m"])
        if slot is None or slot.last_pred is None:
            return {"class": "skipped"}
        import numpy as np

        ds = self.data.get(slot.last_pred_data)
        m_before, _, _ = self.model_state(slot.obj)
        d_before = self.data_state(ds.obj) if ds is not None else None
        df = slot.last_pred
        try:
            for c in list(df.columns):
                if df[c].dtype.kind == "f":
                    df[c] = np.nan
            df["scribble"] = 1
            df.index = df.index[::-1]
        except Exception:  # noqa: BLE001
            pass
        slot.last_pred = None
        m_after, _, _ = self.model_state(slot.obj)
        d_after = self.data_state(ds.obj) if ds is not None else None
        sig, nt = self._presig("SCRIBBLE_PRED", slot)
        return {"class": "done", "fam": slot.fam, "model_changed": m_after != m_before,
                "data_changed": D.diff_parts(d_before, d_after) if ds is not None else [],
                "dfam": self._data_fam(ds.obj) if ds is not None else None, "presig": sig, "nontrivial": True}

    def op_INSPECT(self, a, store):
        slot = self.models.get(a["m"])
        if slot is None or not slot.fitted:
            return {"class": "skipped"}
        m_before, _, _ = self.model_state(slot.obj)
        obj = slot.obj
        seen = {}
        for name in ("warnings", "disqualification", "baseline_timezone", "settings", "error", "baseline_metrics",
                     "is_fitted", "params", "version"):
            try:
                v = getattr(obj, name)
                seen[name] = type(v).__name__
                if isinstance(v, list):
                    list(v)
                if hasattr(v, "model_dump"):
                    with self._quiet():
                        v.model_dump()
            except Exception as e:  # noqa: BLE001
                seen[name] = _cls(e)
        m_after, _, _ = self.model_state(obj)
        sig, nt = self._presig("INSPECT", slot)
        return {"class": "done", "fam": slot.fam, "model_changed": m_after != m_before, "gate": self._gate_attrs(obj),
                "presig": sig, "nontrivial": nt}

    # ------------------------------------------------------------------ durable state

    def op_STORE(self, a, store):
        slot = self.models.get(a["m"])
        if slot is None or not slot.fitted:
            return {"class": "skipped"}
        form = a.get("form", "json")
        sig, nt = self._presig("STORE", slot)
        out = {"fam": slot.fam, "profile": slot.profile, "gen": slot.gen, "origin_doc": slot.origin_doc,
               "form": form, "presig": sig, "nontrivial": nt}
        try:
            if form == "dict":
                d = self._call(lambda: slot.obj.to_dict())
                txt = json.dumps(d)
                keep = json.loads(txt)      # what goes into the store: independent of the caller's dict
                self._scribble_doc(d)       # the caller edits the dict it was handed
                d = keep
            else:
                txt = self._call(lambda: slot.obj.to_json())
                d = None
        except Exception as e:  # noqa: BLE001
            out["class"] = _cls(e)
            out["error"] = str(e)[:200]
            return out
        out["class"] = "returned"
        # a second serialisation must give the same text (to_json must not alter what it serialises)
        try:
            txt2 = self._call(lambda: slot.obj.to_json())
            # (the dict form is compared as a document, not as text: to_dict and to_json need not agree on member order)
            out["restore_same"] = (txt2 == txt) if form != "dict" else (_canon(txt2) == _canon(txt))
        except Exception as e:  # noqa: BLE001
            out["restore_same"] = _cls(e)
        out["doc_digest"] = D.text(txt)
        if slot.gen == 0 and slot.fit_doc is not None:
            # text, not parsed values: NaN != NaN would fake a difference
            same = (txt == slot.fit_doc) if form != "dict" else (_canon(txt) == _canon(slot.fit_doc))
            out["same_as_fit"] = same
            if not same:
                out["fit_diff_paths"] = D.top_diff(json.loads(slot.fit_doc), json.loads(txt))
        if slot.origin_doc is not None and slot.origin_doc in store:
            orig = store[slot.origin_doc]["text"]
            same = (_canon(txt) == _canon(orig)) if (slot.canon or form == "dict" or store[slot.origin_doc].get("form") == "dict") \
                else (txt == orig)
            out["same_as_origin"] = same
            if not same:
                try:
                    out["origin_diff_paths"] = D.top_diff(json.loads(orig), json.loads(txt))
                except Exception:  # noqa: BLE001
                    out["origin_diff_paths"] = ["unparseable"]
        doc_id = a["doc"]
        entry = {"text": txt, "form": form, "fam": slot.fam, "profile": slot.profile, "gen": slot.gen,
                 "base_recipe": slot.base_recipe, "gate": self._gate_attrs(slot.obj), "lineage": slot.lineage,
                 "by_worker": self.wid}
        if form == "dict":
            entry["obj"] = d
        panel = a.get("panel")
        if panel:
            entry["panel"] = {}
            for pr in panel:
                for ign in (True,):
                    rcls, rparts = self._ref_predict(slot, slot.obj, pr, ign, None)
                    entry["panel"][C.rid(pr) + f"|{ign}|None"] = (rcls, D.combine(rparts) if rparts else None)
        store[doc_id] = entry
        try:
            if doc_id in self.store_twins:
                self.store_twins[doc_id].close()
            self.store_twins[doc_id] = RefServer(self, slot.obj, slot.fam)
        except Exception as e:  # noqa: BLE001
            out["twin_error"] = _cls(e)
        out["doc"] = doc_id
        return out

    @staticmethod
    def _scribble_doc(d, depth=0):
        """Edit a handed-out document in place, nested parts included (round numbers, empty lists, drop keys)."""
        if depth > 6:
            return
        if isinstance(d, dict):
            for k in list(d.keys()):
                v = d[k]
                if isinstance(v, (dict, list)):
                    Worker._scribble_doc(v, depth + 1)
                elif isinstance(v, float):
                    d[k] = round(v, 1) + 1.0
                elif isinstance(v, str):
                    d[k] = v + "~"
            d["scribble"] = True
        elif isinstance(d, list):
            for i, v in enumerate(d):
                if isinstance(v, (dict, list)):
                    Worker._scribble_doc(v, depth + 1)
                elif isinstance(v, float):
                    d[i] = round(v, 1) + 1.0
            if d and not isinstance(d[0], (dict, list)):
                del d[-1:]

    def op_LOAD(self, a, store):
        entry = store.get(a["doc"])
        self._drop_model(a["m"])
        if entry is None:
            return {"class": "skipped"}
        form = a.get("form", "json")
        fam, profile = entry["fam"], entry["profile"]
        cls = getattr(self.em, P.FAMILIES[fam][0])
        out = {"fam": fam, "profile": profile, "form": form, "doc": a["doc"], "gen": entry["gen"] + 1}
        txt = entry["text"]
        try:
            if form == "json":
                obj = self._call(lambda: cls.from_json(txt))
            elif form == "json_dict_json":
                t2 = json.dumps(json.loads(txt))
                obj = self._call(lambda: cls.from_json(t2))
            elif form == "json_sorted":
                # the document comes back from a store that normalises JSON (sorted keys, other whitespace — what a
                # JSONB column or a canonicalising serialiser does): the same document, another member order
                t2 = json.dumps(json.loads(txt), sort_keys=True, indent=1)
                obj = self._call(lambda: cls.from_json(t2))
            else:
                d = entry.get("obj")
                if d is None or form == "dict_sorted":
                    d = json.loads(txt)
                if form == "dict_sorted":
                    d = json.loads(json.dumps(d, sort_keys=True))
                before = json.dumps(d, sort_keys=True, default=str)
                obj = self._call(lambda: cls.from_dict(d))
                if form == "dict_twice":
                    obj = self._call(lambda: cls.from_dict(d))
                after = json.dumps(d, sort_keys=True, default=str)
                out["document_changed"] = before != after
                if before != after:
                    try:
                        out["document_changed_paths"] = D.top_diff(json.loads(before), json.loads(after))
                    except Exception:  # noqa: BLE001
                        pass
        except Exception as e:  # noqa: BLE001
            out["class"] = _cls(e)
            out["error"] = str(e)[:300]
            return out
        out["class"] = "returned"
        slot = ModelSlot(obj, fam, profile)
        slot.fitted = True
        slot.base_recipe = entry["base_recipe"]
        slot.gen = entry["gen"] + 1
        slot.origin_doc = a["doc"]
        slot.origin_text = txt
        slot.canon = form in ("json_sorted", "dict_sorted")
        slot.lineage = entry.get("lineage")
        gate = self._gate_attrs(obj)
        out["gate"] = gate
        out["gate_at_store"] = entry["gate"]
        slot.gate0 = {"dq": _names(gate["dq"]), "tz": gate["tz"]}
        dg, retxt, mode = self.model_state(obj)
        out["restore_mode"] = mode
        if retxt is not None:
            # a document that came back in another member order is the same document: compared in canonical form
            out["redoc_same"] = (_canon(retxt) == _canon(txt)) if (slot.canon or entry.get("form") == "dict") else (retxt == txt)
            if not out["redoc_same"]:
                try:
                    out["redoc_diff_paths"] = D.top_diff(json.loads(txt), json.loads(retxt))
                except Exception:  # noqa: BLE001
                    out["redoc_diff_paths"] = ["unparseable"]
        try:
            slot.twin = copy.deepcopy(obj)
        except Exception as e:  # noqa: BLE001
            out["twin_error"] = _cls(e)
        if slot.gen >= 2:
            self.probe("restore_of_second_generation")
        sig, nt = self._presig("LOAD", slot)
        out["presig"], out["nontrivial"] = sig, True
        self.models[a["m"]] = slot
        self._enter_service(slot)
        return out
