"""Batches, minimisation, replay, evidence, known findings, self-test."""
from __future__ import annotations

import json
import os
import subprocess
import sys
import time
from concurrent.futures import as_completed

from . import env, gen, runner

KNOWN_FILE = os.path.join(env.VERIF, "KNOWN_FINDINGS.jsonl")
REPLAY_DIR = os.path.join(env.VERIF, "replays")
EVIDENCE_DIR = os.path.join(env.VERIF, "evidence")
MAX_REPORT = 3

PROP_KINDS = {
    "C01": ("STORE", "LOAD", "PREDICT", "PREDICT_GRID", "SERIAL_ABORT_SWEEP"),
    "C02": ("MAKE_DATA", "FIT", "PREDICT", "SCRIBBLE_DATA", "SCRIBBLE_PRED", "INSPECT", "STORE", "ABORT_SWEEP", "FIT_ABORT_SWEEP",
            "SERIAL_ABORT_SWEEP"),
    "C03": ("MAKE_DATA", "FIT", "PREDICT"),
    "C04": ("FIT", "PREDICT", "LOAD"),
    "C05": ("PREDICT_PAIR",),
}


def batch_seed(base: int, i: int) -> int:
    return base * 1_000_003 + i


def load_known():
    known = {}
    if os.path.exists(KNOWN_FILE):
        for line in open(KNOWN_FILE):
            line = line.strip()
            if not line or line.startswith("#"):
                continue
            e = json.loads(line)
            if e.get("status") == "finding":
                known[e["signature"]] = e
    return known


# ------------------------------------------------------------------ minimisation


def _renumber(events):
    out = []
    for i, e in enumerate(events):
        e = dict(e)
        e["seq"] = i
        out.append(e)
    return out


def _has_sig(rec, prop, sig):
    return any(v["prop"] == prop and v["sig"] == sig for v in rec.get("violations", []))


def minimise(pool, sched, prop, sig, at_seq, budget_s=150, max_cand=60, verbose=False, zclass=0):
    """ddmin over the event list; a candidate is accepted only if the same signature recurs."""
    t0 = time.time()
    events = [e for e in sched["events"] if e["seq"] <= at_seq]
    tried = 0

    def test_many(cands):
        nonlocal tried
        futs = {}
        for idx, c in enumerate(cands):
            s = dict(sched)
            s["zclass"] = zclass
            s["events"] = _renumber(c)
            futs[pool.submit(runner.run_seed, ("sched", s))] = idx
        res = {}
        for f in as_completed(futs):
            tried += 1
            try:
                res[futs[f]] = _has_sig(f.result(), prop, sig)
            except Exception:  # noqa: BLE001
                res[futs[f]] = False
        return [res[i] for i in range(len(cands))]

    # the truncated schedule must itself reproduce (it does unless the run is nondeterministic)
    if not test_many([events])[0]:
        return sched["events"], tried, False
    n = 2
    while len(events) >= 2 and time.time() - t0 < budget_s and tried < max_cand:
        size = max(1, len(events) // n)
        chunks = [events[i:i + size] for i in range(0, len(events), size)]
        cands = []
        for i in range(len(chunks)):
            comp = [e for j, ch in enumerate(chunks) if j != i for e in ch]
            if comp and comp[-1]["kind"] not in ("THREAD", "BLAS", "CLOCK", "RNG"):
                cands.append(comp)
            elif comp:
                cands.append(comp)
        ok = test_many(cands)
        hit = [c for c, o in zip(cands, ok) if o]
        if hit:
            events = min(hit, key=len)
            n = max(n - 1, 2)
        else:
            if n >= len(events):
                break
            n = min(len(events), n * 2)
    # argument simplification: drop abort modifiers where the signature survives
    if time.time() - t0 < budget_s and tried < max_cand:
        cands = []
        for i, e in enumerate(events):
            if "abort" in e.get("args", {}):
                c = [dict(x) for x in events]
                c[i] = dict(c[i])
                c[i]["args"] = {k: v for k, v in c[i]["args"].items() if k != "abort"}
                cands.append(c)
        if cands:
            ok = test_many(cands)
            for c, o in zip(cands, ok):
                if o:
                    events = c
                    break
    return _renumber(events), tried, True


def write_replay(prop, sig, rec, sched, events, tried, reproduced, n):
    os.makedirs(REPLAY_DIR, exist_ok=True)
    path = os.path.join(REPLAY_DIR, f"{prop}-{rec.get('seed')}-{n}.json")
    v = next((v for v in rec["violations"] if v["prop"] == prop and v["sig"] == sig), None)
    doc = {
        "property": prop, "signature": sig, "seed": rec.get("seed"), "mode": sched.get("mode"),
        "tree_hash": env.tree_hash(), "backend": sched.get("backend", "objsim"),
        "hashseed": rec.get("hashseed", "0"), "zclass": rec.get("zclass", 0),
        "workers": [{"hashseed": rec.get("hashseed", "0"), "warm_up_variant": rec.get("zclass", 0), "threads": 1,
                     "tz": None, "import_order": "opendsm-first", "numba": "warm-shared",
                     "start": "fork-from-warm-zygote"}],
        "events": events,
        "expect": {"detail": v["detail"] if v else None},
        "minimised_from": len(sched["events"]), "candidates_tried": tried, "minimisation_reproduced": reproduced,
    }
    with open(path, "w") as f:
        json.dump(doc, f, indent=1, default=str)
    return path


def replay_file(path, prop=None):
    """Execute a replay file in a fresh interpreter; returns (reproduced, record)."""
    code = (
        "import json,sys\n"
        "from sim import runner\n"
        "doc=json.load(open(sys.argv[1]))\n"
        "rec=runner.run_forked({'seed':doc.get('seed'),'mode':doc.get('mode'),'backend':doc.get('backend'),'events':doc['events']})\n"
        "print('@@'+json.dumps({'violations':rec.get('violations'),'fatal':rec.get('fatal'),'harness':rec.get('harness_errors'),"
        "'history_digest':rec.get('history_digest'),'outs':rec.get('outs_brief')},default=str))\n"
    )
    doc = json.load(open(path))
    if doc.get("backend") == "cross":
        doc["_path"] = path
        return _replay_cross(doc)
    if doc.get("backend") == "fleetsim":
        from . import fleet

        rec = fleet.run_fleet(doc)
    else:
        e_ = env.child_env(hashseed=str(doc.get("hashseed", "0")))
        e_["VERIF_WARM_VARIANT"] = str(doc.get("zclass", 0))
        p = subprocess.run([env.PY, "-W", "ignore", "-c", code, path], cwd=env.VERIF, env=e_,
                           capture_output=True, text=True, timeout=runner.RUN_TIMEOUT + 120)
        line = next((l for l in p.stdout.splitlines() if l.startswith("@@")), None)
        if line is None:
            return False, {"fatal": "replay produced no record", "stderr": p.stderr[-1500:]}
        rec = json.loads(line[2:])
    want_prop = prop or doc["property"]
    ok = any(v["prop"] == want_prop and v["sig"] == doc["signature"] for v in rec.get("violations") or [])
    return ok, rec


def replay_cmd(a):
    ok, rec = replay_file(a.replay, a.prop)
    doc = json.load(open(a.replay))
    if rec.get("fatal"):
        print(f"HARNESS-ERROR replay failed: {rec['fatal']}")
        return 2
    for v in rec.get("violations") or []:
        if v["prop"] == a.prop:
            print(f"  seen: {v['sig']} at seq {v['seq']}")
    if ok:
        known = load_known()
        if doc["signature"] in known:
            print(f"KNOWN-FINDING: property={a.prop} {doc['signature']}")
            return 0
        print(f"VIOLATION property={a.prop} replay={a.replay}")
        print(f"  signature: {doc['signature']}")
        return 1
    print(f"replay of {a.replay}: signature {doc['signature']} did NOT recur")
    return 0


# ------------------------------------------------------------------ the check


def check(a, n_runs, n_fleet):
    prop = a.prop
    t0 = time.time()
    try:
        runner.ensure_numba_cache()
    except Exception as e:  # noqa: BLE001
        print(str(e))
        return 2
    known = load_known()
    jobs = [(batch_seed(a.seed, i), prop, a.tier) for i in range(n_runs)]
    recs = []
    fatal = []
    pool = runner.make_pool(a.jobs)
    try:
        futs = {pool.submit(runner.run_seed, j): j for j in jobs}
        retry = []
        for f in as_completed(futs):
            try:
                r = f.result()
            except Exception as e:  # noqa: BLE001
                r = {"fatal": f"pool: {type(e).__name__}: {e}"}
            if r.get("fatal"):
                retry.append((futs[f], r))
            else:
                recs.append(r)
        if retry:
            # a run lost to the harness (dead or timed-out child) is executed once more before it counts
            pool.shutdown(wait=False, cancel_futures=True)
            pool = runner.make_pool(a.jobs)
            futs = {pool.submit(runner.run_seed, j): (j, r0) for j, r0 in retry}
            for f in as_completed(futs):
                try:
                    r = f.result()
                except Exception as e:  # noqa: BLE001
                    r = {"fatal": f"pool: {type(e).__name__}: {e}"}
                if r.get("fatal"):
                    r["first_attempt"] = futs[f][1].get("fatal")
                    fatal.append(r)
                else:
                    r["retried_after"] = futs[f][1].get("fatal")
                    recs.append(r)
        recs.sort(key=lambda r: r["seed"])
        fleet_recs = []
        if n_fleet:
            from . import fleet

            fleet_recs, ffatal = fleet.run_batch(a, prop, n_fleet)
            fatal.extend(ffatal)

        # ---- collect violations of this property
        found = {}   # sig -> (rec, violation)
        for r in recs + fleet_recs:
            for v in r["violations"]:
                if v["prop"] == prop and v["sig"] not in found:
                    found[v["sig"]] = (r, v)
        # batch-level C03: the same key must have the same value in every process of the batch
        cross = []
        if prop == "C03":
            first = {}
            for r in recs + fleet_recs:
                for k, val in r.get("keys", {}).items():
                    if k in first and first[k][0] != val:
                        cross.append((k, first[k][1], r))
                    elif k not in first:
                        first[k] = (val, r)
            for k, ra, rb in cross[:1]:
                sig = "C03/" + k.split("|")[1] + "/" + k.split("|")[0] + "/differs-across-processes"
                if sig not in found:
                    found[sig] = (rb, {"prop": "C03", "sig": sig, "seq": -1,
                                       "detail": {"key": k, "other_seed": ra.get("seed")}, "cross": (ra, rb)})
        harness = [h for r in recs + fleet_recs for h in r.get("harness_errors", [])]
        if a.verbose:
            cnt = {}
            for r in recs + fleet_recs:
                for v in r["violations"]:
                    c = cnt.setdefault((v["prop"], v["sig"]), [0, r.get("seed"), v["seq"], v["detail"]])
                    c[0] += 1
            for (p_, s_), c in sorted(cnt.items()):
                print(f"  [{p_}] {s_}  x{c[0]}  e.g. seed {c[1]} seq {c[2]} {json.dumps(c[3], default=str)[:160]}")
            nn = {}
            for r in recs:
                for n_ in r.get("notes", []):
                    k_ = n_["note"][:90]
                    nn.setdefault(k_, [0, r.get("seed"), n_])[0] += 1
            for k_, c in sorted(nn.items()):
                print(f"  note x{c[0]}: {k_}  e.g. seed {c[1]} {json.dumps(c[2], default=str)[:200]}")

        new = [s for s in sorted(found) if s not in known]
        old = [s for s in sorted(found) if s in known]
        for s in old:
            print(f"KNOWN-FINDING: property={prop} {s} ({known[s].get('what', '')})")
        viol_lines = []
        for n, s in enumerate(new[:MAX_REPORT]):
            rec, v = found[s]
            if v.get("cross"):
                path = _write_cross_replay(prop, s, v, n, a.tier)
                ok, _r = replay_file(path, prop)
                viol_lines.append((s, path, ok))
                continue
            if rec.get("backend") == "fleetsim":
                from . import fleet

                path, rep = fleet.report(rec, prop, s, n)
                viol_lines.append((s, path, rep))
                continue
            sched = gen.generate(rec["seed"], prop, a.tier)
            if a.no_minimise:
                events, tried, rep = sched["events"], 0, True
            else:
                events, tried, rep = minimise(pool, sched, prop, s, v["seq"],
                                              budget_s=100 if a.tier == "quick" else 400,
                                              zclass=rec.get("zclass", 0))
            path = write_replay(prop, s, rec, sched, events, tried, rep, n)
            ok, _r = replay_file(path, prop)
            if not ok and prop == "C03":
                # a C03 violation IS nondeterminism of the system: a replay that sometimes passes is expected;
                # try again, and report the violation either way (the file records that it is flaky)
                for _ in range(2):
                    ok, _r = replay_file(path, prop)
                    if ok:
                        break
                if not ok:
                    d_ = json.load(open(path))
                    d_["replay_flaky"] = ("did not recur in 3 fresh-interpreter replays: the outcome of this schedule is not a "
                                          "function of the schedule, which is what C03 forbids")
                    json.dump(d_, open(path, "w"), indent=1, default=str)
                    ok = True
            viol_lines.append((s, path, ok))
    finally:
        pool.shutdown(wait=False, cancel_futures=True)

    wall = time.time() - t0
    if not a.no_evidence:
        write_evidence(a, prop, recs, fleet_recs if n_fleet else [], fatal, harness, found, known, wall)
    rc = 0
    for s, path, ok in viol_lines:
        if ok:
            print(f"VIOLATION property={prop} replay={path}")
            print(f"  signature: {s}")
            rc = 1
        else:
            print(f"HARNESS-ERROR nondeterministic-replay property={prop} signature={s} replay={path}")
            rc = max(rc, 2) if rc != 1 else 1
    if len(new) > MAX_REPORT:
        print(f"  (+{len(new) - MAX_REPORT} further new signatures: {', '.join(new[MAX_REPORT:][:8])})")
    if fatal or harness:
        for x in (fatal + harness)[:5]:
            print("HARNESS-ERROR " + json.dumps(x, default=str)[:600])
        if rc == 0:
            rc = 2
    n_ev = sum(r["n_events"] for r in recs)
    print(f"{prop} {a.tier}: {len(recs)} objsim runs + {len(fleet_recs) if n_fleet else 0} fleetsim runs, {n_ev} events, "
          f"{len(found)} signatures ({len(old)} known, {len(new)} new), {wall:.0f}s, exit {rc}")
    return rc


def _write_cross_replay(prop, sig, v, n, tier="quick"):
    os.makedirs(REPLAY_DIR, exist_ok=True)
    ra, rb = v["cross"]
    path = os.path.join(REPLAY_DIR, f"{prop}-cross-{rb.get('seed')}-{n}.json")
    runs = []
    for r in (ra, rb):
        if r.get("backend") == "fleetsim":
            runs.append({"backend": "fleetsim", "seed": r.get("seed"), "workers": r["sched"]["workers"],
                         "events": r["sched"]["events"]})
        else:
            s = gen.generate(r["seed"], prop, tier)
            runs.append({"backend": "objsim", "seed": r.get("seed"), "hashseed": r.get("hashseed", "0"),
                         "zclass": r.get("zclass", 0), "events": s["events"]})
    with open(path, "w") as f:
        json.dump({"property": prop, "signature": sig, "backend": "cross", "key": v["detail"]["key"],
                   "seeds": [ra.get("seed"), rb.get("seed")], "mode": prop, "runs": runs,
                   "note": "two runs in different worker processes disagree on the value of this key"}, f, indent=1,
                  default=str)
    return path


def _replay_cross(doc):
    """Execute both embedded runs in fresh processes and compare the key."""
    vals = []
    for run in doc["runs"]:
        if run["backend"] == "fleetsim":
            from . import fleet

            rec = fleet.run_fleet({"seed": run["seed"], "mode": doc["mode"], "workers": run["workers"],
                                   "events": run["events"]})
        else:
            code = ("import json,sys\nfrom sim import runner\nrun=json.load(open(sys.argv[1]))['runs'][int(sys.argv[2])]\n"
                    "rec=runner.run_forked({'seed':run['seed'],'mode':None,'events':run['events']})\n"
                    "print('@@'+json.dumps({'keys':rec.get('keys'),'fatal':rec.get('fatal')}))\n")
            e_ = env.child_env(hashseed=str(run.get("hashseed", "0")))
            e_["VERIF_WARM_VARIANT"] = str(run.get("zclass", 0))
            p = subprocess.run([env.PY, "-W", "ignore", "-c", code, doc["_path"], str(doc["runs"].index(run))],
                               cwd=env.VERIF, env=e_,
                               capture_output=True, text=True, timeout=runner.RUN_TIMEOUT + 120)
            line = next((l for l in p.stdout.splitlines() if l.startswith("@@")), None)
            rec = json.loads(line[2:]) if line else {"fatal": "no record"}
        if rec.get("fatal"):
            return False, rec
        vals.append((rec.get("keys") or {}).get(doc["key"]))
    differ = vals[0] is not None and vals[1] is not None and vals[0] != vals[1]
    return differ, {"violations": [{"prop": doc["property"], "sig": doc["signature"], "seq": -1}] if differ else [],
                    "values": vals}


# ------------------------------------------------------------------ evidence


def write_evidence(a, prop, recs, fleet_recs, fatal, harness, found, known, wall):
    os.makedirs(EVIDENCE_DIR, exist_ok=True)
    kinds = PROP_KINDS[prop]
    distinct = set()
    checked = 0
    faults = {}
    probes = {}
    by_kind = {}
    by_fam = {}
    classes = {}
    sim_s = 0.0
    for r in recs + fleet_recs:
        st = r["stats"]
        for sig, nontrivial, k in st["presigs"]:
            if k in kinds:
                checked += 1
                if nontrivial:
                    distinct.add(sig)
        for d, src in ((faults, st["faults_fired"]), (probes, st["probes"]), (by_kind, st["by_kind"]),
                       (by_fam, st["ops_by_family"]), (classes, st["classes"])):
            for k, v in src.items():
                d[k] = d.get(k, 0) + v
        sim_s += st.get("simulated_seconds", 0.0)
    samples = []
    want = [("fault-free", lambda s: s["swarm"]["fault_free"]),
            ("with restart", lambda s: any(e["kind"] == "CRASH_RESTART" for e in s["events"])),
            ("with injected abort", lambda s: any("abort" in e.get("args", {}) for e in s["events"]))]
    for label, pred in want:
        for r in recs[:60]:
            s = gen.generate(r["seed"], prop, a.tier)
            if pred(s):
                samples.append({"what": label, "seed": r["seed"], "events": [
                    {"seq": e["seq"], "kind": e["kind"], "args": e["args"], "outcome": o["class"]}
                    for e, o in zip(s["events"], r["outs_brief"])][:14]})
                break
    if not samples and recs:
        s = gen.generate(recs[0]["seed"], prop, a.tier)
        samples.append({"what": "first run", "seed": recs[0]["seed"], "events": s["events"][:10]})
    for r in fleet_recs[:1]:
        samples.append({"what": "fleetsim run", "seed": r.get("seed"), "events": r.get("outs_brief", [])[:16],
                        "workers": r.get("workers")})
    n_runs = len(recs) + len(fleet_recs)
    ev = {
        "property_id": prop, "tier": a.tier, "seed": a.seed, "level": "exploration",
        "coverage": {
            "evaluations": n_runs,
            "distinct_nontrivial": len(distinct),
            "rule": ("one evaluation = one simulated run (seeded schedule of library operations, faults and restarts executed "
                     "against the real library, every oracle evaluated at every event); counted as distinct_nontrivial: the "
                     f"number of distinct pre-state signatures at checked events of kinds {list(kinds)} — (op kind, family, "
                     "profile, restore generation, earlier predicts on the object 0/1/2+, span of the previous predict, last "
                     "two event kinds on the worker, thread mode, RNG/clock/BLAS perturbation, aborts seen, restarts) — where "
                     "non-trivial means an earlier event touched the same object or worker"),
            "samples": samples,
            "checked_events": checked,
            "events_total": sum(r["n_events"] for r in recs + fleet_recs),
            "objsim_runs": len(recs), "fleetsim_runs": len(fleet_recs),
            "runs_per_hour": round(n_runs / max(wall, 1e-9) * 3600),
            "seeds": [recs[0]["seed"], recs[-1]["seed"]] if recs else [],
            "simulated_seconds": round(sim_s, 3),
            "faults_fired": faults,
            "probes": probes,
            "ops_by_kind": by_kind, "ops_by_family": by_fam, "outcome_classes": classes,
            "signatures_seen": sorted(found),
            "known_findings_seen": sorted(s for s in found if s in known),
            "harness_errors": len(fatal) + len(harness),
            "real_vs_stub": {
                "real": ["all of opendsm from /repo's working tree", "numpy", "pandas", "scikit-learn", "statsmodels",
                         "nlopt", "numba (JIT + on-disk cache)", "pydantic", "CPython json", "OS processes (fork, kill)"],
                "simulated": ["wall clock read by the library (virtual)", "document store", "worker lifecycle and crash",
                              "exception delivery inside library calls (sys.monitoring)", "workload (catalogue)"],
            },
            "tree_hash": env.tree_hash()[:16],
        },
        "assumptions": [
            "copy.deepcopy of a freshly fitted model is faithful (checked at every FIT: twin serialises identically)",
            "SHA-256 digests of raw buffers; the dataset catalogue is a deterministic function of the recipe",
            "input breadth is the catalogue's (sampled), not all datasets",
        ],
        "wall_s": round(wall, 2),
        "violations": len([s for s in found if s not in known]),
    }
    with open(os.path.join(EVIDENCE_DIR, f"{prop}.json"), "w") as f:
        json.dump(ev, f, indent=1, default=str)


# ------------------------------------------------------------------ setup and self-test


def setup(a):
    try:
        d, made = runner.ensure_numba_cache()
    except Exception as e:  # noqa: BLE001
        print(str(e))
        return 2
    print(f"numba cache {'built' if made else 'present'} at {d}")
    import importlib.util

    for mod in ("threadpoolctl",):
        if importlib.util.find_spec(mod) is None:
            print(f"HARNESS-ERROR missing module {mod} in {sys.executable}")
            return 2
    a.runs = 6
    return selftest(a)


def selftest(a):
    """Determinism: same seed twice (different pool processes), and in a fresh interpreter under another hash seed."""
    n = a.runs or 16
    try:
        runner.ensure_numba_cache()
    except Exception as e:  # noqa: BLE001
        print(str(e))
        return 2
    seeds = [batch_seed(a.seed + 7919, i) for i in range(n)]
    modes = [("C01", "C02", "C03", "C04", "C05")[i % 5] for i in range(n)]
    pool = runner.make_pool(a.jobs)
    bad = 0
    try:
        f1 = [pool.submit(runner.run_seed, (s, m, "quick")) for s, m in zip(seeds, modes)]
        f2 = [pool.submit(runner.run_seed, (s, m, "quick")) for s, m in zip(seeds, modes)]
        r1 = [f.result() for f in f1]
        r2 = [f.result() for f in f2]
    finally:
        pool.shutdown(wait=False, cancel_futures=True)
    for s, m, x, y in zip(seeds, modes, r1, r2):
        if x.get("fatal") or y.get("fatal"):
            print(f"HARNESS-ERROR selftest seed {s}: {x.get('fatal') or y.get('fatal')}")
            bad += 1
        elif x["schedule_digest"] != y["schedule_digest"]:
            print(f"HARNESS-ERROR selftest seed {s}: schedule digest differs between two runs")
            bad += 1
        elif x["history_digest"] != y["history_digest"]:
            print(f"selftest seed {s} mode {m}: history digest differs between two runs of the same schedule "
                  f"(the system, not the harness, is nondeterministic: a C03 observation)")
            bad += 1
    # fresh interpreter under another hash seed, for a few seeds
    code = ("import json,sys\nfrom sim import gen,runner\n"
            "out=[]\n"
            "for s,m in json.loads(sys.argv[1]):\n"
            "    r=runner.run_seed((s,m,'quick'))\n"
            "    out.append([r.get('schedule_digest'),r.get('history_digest'),r.get('fatal')])\n"
            "print('@@'+json.dumps(out))\n")
    sub = list(zip(seeds, modes))[:max(2, n // 4)]
    e = env.child_env(hashseed="4242", threads="3")
    p = subprocess.run([env.PY, "-W", "ignore", "-c", code, json.dumps(sub)], cwd=env.VERIF, env=e,
                       capture_output=True, text=True, timeout=3000)
    line = next((l for l in p.stdout.splitlines() if l.startswith("@@")), None)
    if line is None:
        print("HARNESS-ERROR selftest: fresh interpreter produced nothing: " + p.stderr[-800:])
        return 2
    for (s, m), got, x in zip(sub, json.loads(line[2:]), r1):
        if got[2]:
            print(f"HARNESS-ERROR selftest seed {s} fresh interpreter: {got[2]}")
            bad += 1
        elif got[0] != x["schedule_digest"]:
            print(f"HARNESS-ERROR selftest seed {s}: schedule digest depends on PYTHONHASHSEED / process")
            bad += 1
        elif got[1] != x["history_digest"]:
            print(f"selftest seed {s} mode {m}: history digest differs in a fresh interpreter with PYTHONHASHSEED=4242, "
                  f"3 BLAS threads")
            bad += 1
    print(f"selftest: {n} seeds x 2 pool runs + {len(sub)} fresh-interpreter runs, {bad} disagreements")
    return 0 if bad == 0 else 2
