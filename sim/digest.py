"""Canonical digests of frames, documents and object states (independent of PYTHONHASHSEED)."""
from __future__ import annotations

import hashlib
import json

import numpy as np
import pandas as pd


def _h():
    return hashlib.sha256()


def _upd_array(h, a: np.ndarray):
    a = np.asarray(a)
    if a.dtype.kind == "f":
        b = np.ascontiguousarray(a, dtype="float64").copy()
        b[np.isnan(b)] = np.nan  # normalise NaN payloads
        b[b == 0] = 0.0  # and the sign of zero
        h.update(b.tobytes())
    elif a.dtype.kind in "iub":
        h.update(np.ascontiguousarray(a).astype("int64").tobytes())
    elif a.dtype.kind == "M":
        h.update(np.ascontiguousarray(a).astype("datetime64[ns]").astype("int64").tobytes())
    else:
        for x in a.tolist():
            if isinstance(x, float) and x != x:
                h.update(b"<nan>")
            else:
                h.update(repr(x).encode())
            h.update(b"\x1f")


def _index_parts(idx):
    if isinstance(idx, pd.DatetimeIndex):
        tz = str(idx.tz) if idx.tz is not None else "naive"
        vals = idx.tz_convert("UTC").tz_localize(None).to_numpy() if idx.tz is not None else idx.to_numpy()
        return "dt:" + tz, vals
    if isinstance(idx, pd.MultiIndex):
        return "multi", np.array([repr(t) for t in idx.tolist()], dtype=object)
    return "idx:" + str(idx.dtype), idx.to_numpy()


def frame_parts(obj) -> dict:
    """Digest a DataFrame/Series in parts, so that a difference can be attributed."""
    if obj is None:
        return {"none": "none"}
    if isinstance(obj, pd.Series):
        obj = obj.to_frame(name=obj.name if obj.name is not None else "<none>")
    parts = {}
    h = _h()
    kind, vals = _index_parts(obj.index)
    h.update(kind.encode())
    h.update(repr(obj.index.name).encode())
    _upd_array(h, vals)
    parts["index"] = h.hexdigest()
    h = _h()
    h.update(repr([str(c) for c in obj.columns]).encode())
    parts["columns"] = h.hexdigest()
    h = _h()
    h.update(repr([str(t) for t in obj.dtypes]).encode())
    parts["dtypes"] = h.hexdigest()
    for c in obj.columns:
        h = _h()
        col = obj[c]
        if isinstance(col, pd.DataFrame):  # duplicated column label
            for i in range(col.shape[1]):
                _upd_array(h, col.iloc[:, i].to_numpy())
        else:
            _upd_array(h, col.to_numpy())
        parts["col:" + str(c)] = h.hexdigest()
    return parts


def combine(parts: dict) -> str:
    h = _h()
    for k in sorted(parts):
        h.update(k.encode())
        h.update(b"=")
        h.update(str(parts[k]).encode())
        h.update(b";")
    return h.hexdigest()[:32]


def frame(obj) -> str:
    return combine(frame_parts(obj))


def diff_parts(a: dict, b: dict) -> list:
    keys = sorted(set(a) | set(b))
    return [k for k in keys if a.get(k) != b.get(k)]


def freq_note(obj):
    try:
        return str(obj.index.freq)
    except Exception:
        return None


def text(s: str) -> str:
    return hashlib.sha256(s.encode()).hexdigest()[:32]


def jsonable(o):
    """Best-effort canonical JSON for harness records (never for library state)."""
    return json.dumps(o, sort_keys=True, default=str)


def json_paths_diff(a, b, prefix="", out=None, limit=12):
    """Paths at which two JSON-like values differ (structure only, no values)."""
    if out is None:
        out = []
    if len(out) >= limit:
        return out
    if isinstance(a, dict) and isinstance(b, dict):
        for k in sorted(set(a) | set(b), key=str):
            if k not in a or k not in b:
                out.append(f"{prefix}/{k}")
            else:
                json_paths_diff(a[k], b[k], f"{prefix}/{k}", out, limit)
    elif isinstance(a, list) and isinstance(b, list):
        if len(a) != len(b):
            out.append(f"{prefix}[len]")
        else:
            for i, (x, y) in enumerate(zip(a, b)):
                if json_paths_diff(x, y, f"{prefix}[]", [], 1):
                    out.append(f"{prefix}[]")
                    break
    else:
        same = (a == b) or (isinstance(a, float) and isinstance(b, float) and a != a and b != b)
        if not same or type(a) is not type(b):
            out.append(prefix or "/")
    return out


def top_paths(paths):
    """Collapse JSON paths to a short, seed-stable label (no data-dependent keys)."""
    s = set()
    for p in paths:
        segs = [x for x in p.replace("[]", "").replace("[len]", "").split("/") if x]
        if not segs:
            s.add("/")
        elif segs[0] in ("info", "settings", "model") and len(segs) > 1:
            s.add(segs[0] + "/" + segs[1])
        elif segs[0] == "submodels" and len(segs) > 2:
            s.add("submodels/*/" + segs[2])
        else:
            s.add(segs[0])
    return sorted(s)


def deep_equal(a, b) -> bool:
    """Equality of JSON-like values with NaN == NaN and int/float distinguished."""
    if isinstance(a, dict) and isinstance(b, dict):
        return a.keys() == b.keys() and all(deep_equal(a[k], b[k]) for k in a)
    if isinstance(a, list) and isinstance(b, list):
        return len(a) == len(b) and all(deep_equal(x, y) for x, y in zip(a, b))
    if isinstance(a, float) and isinstance(b, float) and a != a and b != b:
        return True
    return type(a) is type(b) and a == b


def value_equal(a, b) -> bool:
    """Equality of JSON-like values as *documents*: NaN == NaN, and a number is its value (12 and 12.0 are the same
    member value; true/false are not numbers)."""
    if isinstance(a, dict) and isinstance(b, dict):
        return a.keys() == b.keys() and all(value_equal(a[k], b[k]) for k in a)
    if isinstance(a, list) and isinstance(b, list):
        return len(a) == len(b) and all(value_equal(x, y) for x, y in zip(a, b))
    num = (int, float)
    if isinstance(a, num) and isinstance(b, num) and not isinstance(a, bool) and not isinstance(b, bool):
        return (a != a and b != b) or a == b
    return type(a) is type(b) and a == b


def top_diff(a, b):
    """Seed-stable labels of where two documents differ: every differing top-level key, one level deeper for
    info/settings/model, and field names (not split names) under submodels."""
    if not (isinstance(a, dict) and isinstance(b, dict)):
        return [] if deep_equal(a, b) else ["/"]
    out = set()
    for k in sorted(set(a) | set(b), key=str):
        if k not in a or k not in b:
            out.add(str(k))
            continue
        x, y = a[k], b[k]
        if deep_equal(x, y):
            continue
        if k in ("info", "settings", "model") and isinstance(x, dict) and isinstance(y, dict):
            for kk in sorted(set(x) | set(y), key=str):
                if kk not in x or kk not in y or not deep_equal(x[kk], y[kk]):
                    out.add(f"{k}/{kk}")
        elif k == "submodels" and isinstance(x, dict) and isinstance(y, dict):
            if x.keys() != y.keys():
                out.add("submodels")
            for sk in set(x) & set(y):
                if isinstance(x[sk], dict) and isinstance(y[sk], dict):
                    for f in sorted(set(x[sk]) | set(y[sk])):
                        if not deep_equal(x[sk].get(f), y[sk].get(f)):
                            out.add(f"submodels/*/{f}")
                elif not deep_equal(x[sk], y[sk]):
                    out.add("submodels")
        else:
            out.add(str(k))
    return sorted(out)
