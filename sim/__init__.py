"""Deterministic simulation with fault injection for openeemeter/eemeter (see /verif/DESIGN.md)."""
