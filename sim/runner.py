"""Execute schedules (objsim back-end), in batches over a pool of warm zygotes.

Every run executes in a process forked from a zygote that has imported the library from /repo and done
one fixed warm-up; so a run's starting state is the same in the batch and in a replay, and nothing a
run does (thread pools, patched clocks, leaked state) can reach the next run.
"""
from __future__ import annotations

import faulthandler
import hashlib
import json
import os
import pickle
import select
import signal
import sys
import time
import traceback

from . import env, gen

RUN_TIMEOUT = float(os.environ.get("VERIF_RUN_TIMEOUT", "900"))

_WARM = False


# What a zygote did before the runs it serves: the "process history" dimension of the simulation.  The variant a
# run meets is a function of its seed (seed % 4, like the hash seed), so it is part of the replayable execution.
WARMUPS = (
    (("daily", "default", 100), ("billing", "default", 101), ("hourly", "seed1", 102)),
    (("daily", "seasonmap", 107), ("billing", "seasonmap", 103), ("hourly", "robust", 104)),
    (("daily", "legacy", 102), ("daily", "dev_nosmooth", 101), ("billing", "dev_split", 100), ("hourly", "seed0", 106)),
    (("hourly", "nonsolar", 108),),
)


def _warm_up(only=None, variant=None):
    """Fixed warm-up of a zygote: import the library, fit a few models (deterministic, no PRNG)."""
    global _WARM
    if _WARM:
        return
    if variant is None:
        variant = int(os.environ.get("VERIF_WARM_VARIANT", "0"))
    em = env.import_library()
    from . import catalogue as C
    from . import profiles as P
    import contextlib
    import io

    with contextlib.redirect_stdout(io.StringIO()), contextlib.redirect_stderr(io.StringIO()):
        for fam, prof, mid in WARMUPS[variant % len(WARMUPS)]:
            if only and fam != only:
                continue
            rec = {"fam": P.FAMILIES[fam][1], "mid": mid, "role": "baseline", "tz": "America/Chicago", "entry": "series"}
            try:
                d = C.construct(em, C.build(rec))
                m = P.make_model(em, fam, prof)
                m.fit(d, ignore_disqualification=True)
                m.predict(d, ignore_disqualification=True)
            except Exception:  # noqa: BLE001  a broken tree must surface through the checks, not here
                pass
    _WARM = only is None


def history_digest(events, outs) -> str:
    h = hashlib.sha256()
    for ev, out in zip(events, outs):
        o = {k: v for k, v in out.items() if k not in ("trace", "doc")}
        h.update(json.dumps([ev, o], sort_keys=True, default=str).encode())
    return h.hexdigest()[:24]


def execute(sched: dict) -> dict:
    """Run one schedule in this process and judge it. Returns a compact record."""
    from . import oracles
    from .worker import Worker

    real_time = time.time
    t0 = real_time()
    w = Worker(0)
    store = {}
    outs = []
    try:
        for ev in sched["events"]:
            outs.append(w.exec(ev, store))
    finally:
        w.close()
    V, keys, H, notes = oracles.judge(sched["events"], outs)
    stats = {"events": len(outs), "by_kind": {}, "classes": {}, "faults_fired": {}, "ops_by_family": {},
             "presigs": [], "probes": w.probes, "simulated_seconds": w.clock.now - 1000.0,
             "clock_reads": w.clock.reads}
    for ev, out in zip(sched["events"], outs):
        k = ev["kind"]
        stats["by_kind"][k] = stats["by_kind"].get(k, 0) + 1
        c = out.get("class", "?")
        ck = k + ":" + (c if not c.startswith("raised:") else "raised")
        stats["classes"][ck] = stats["classes"].get(ck, 0) + 1
        if k in ("CRASH_RESTART", "THREAD", "BLAS", "CLOCK", "RNG") and c == "done":
            stats["faults_fired"][k] = stats["faults_fired"].get(k, 0) + 1
        ab = out.get("abort")
        if ab and ab.get("sweep"):
            stats["faults_fired"]["ABORT_SWEEP_POINTS"] = stats["faults_fired"].get("ABORT_SWEEP_POINTS", 0) + (
                out.get("fired", 0) + out.get("store_fired", 0) + out.get("load_fired", 0))
        elif ab:
            name = "ABORT_IN_OP" if ab.get("fired") else "ABORT_NOT_FIRED"
            stats["faults_fired"][name] = stats["faults_fired"].get(name, 0) + 1
        fam = (out.get("facts") or {}).get("fam") or out.get("fam") or out.get("dfam")
        if fam and c not in ("skipped",):
            stats["ops_by_family"][fam] = stats["ops_by_family"].get(fam, 0) + 1
        if out.get("presig") is not None:
            stats["presigs"].append((json.dumps(out["presig"], sort_keys=True), bool(out.get("nontrivial")), k))
    return {
        "seed": sched.get("seed"), "mode": sched.get("mode"),
        "schedule_digest": gen.schedule_digest(sched),
        "history_digest": history_digest(sched["events"], outs),
        "violations": V, "harness_errors": H, "notes": notes[:20],
        "keys": {k: v[0] for k, v in keys.items()},
        "stats": stats, "wall": real_time() - t0, "n_events": len(outs),
        "outs_brief": [{"seq": e["seq"], "kind": e["kind"], "class": o.get("class")} for e, o in
                       zip(sched["events"], outs)],
    }


def _private_tmp():
    """Runs of zygote classes 1 and 3 get a temp directory of their own; classes 0 and 2 share the invocation's.
    Files a library leaves in the temp directory are shared state of the simulated fleet: a key fitted with and
    without that shared state must agree."""
    import tempfile

    if int(os.environ.get("VERIF_WARM_VARIANT", "0")) % 2 == 1:
        d = tempfile.mkdtemp(prefix="run-", dir=os.environ.get("TMPDIR") or None)
        os.environ["TMPDIR"] = d
        tempfile.tempdir = None
        return d
    return None


def _child(sched, wfd):
    private = None
    try:
        faulthandler.enable()
        private = _private_tmp()
        faulthandler.dump_traceback_later(RUN_TIMEOUT - 5, exit=True)
        rec = execute(sched)
        data = pickle.dumps(rec)
    except BaseException as e:  # noqa: BLE001
        data = pickle.dumps({"fatal": f"{type(e).__name__}: {e}", "trace": traceback.format_exc(limit=8),
                             "seed": sched.get("seed")})
    try:
        with os.fdopen(wfd, "wb") as f:
            f.write(data)
        if private:
            import shutil

            shutil.rmtree(private, ignore_errors=True)
    finally:
        os._exit(0)


def run_forked(sched: dict) -> dict:
    """Execute a schedule in a child forked from this (warm) process."""
    _warm_up()
    rfd, wfd = os.pipe()
    sys.stdout.flush()
    sys.stderr.flush()
    pid = os.fork()
    if pid == 0:
        os.close(rfd)
        _child(sched, wfd)
    os.close(wfd)
    chunks = []
    deadline = time.time() + RUN_TIMEOUT
    timed_out = False
    while True:
        left = deadline - time.time()
        if left <= 0:
            timed_out = True
            break
        r, _, _ = select.select([rfd], [], [], min(left, 5.0))
        if r:
            b = os.read(rfd, 1 << 20)
            if not b:
                break
            chunks.append(b)
    os.close(rfd)
    if timed_out:
        try:
            os.kill(pid, signal.SIGKILL)
        except ProcessLookupError:
            pass
    _, status = os.waitpid(pid, 0)
    if timed_out:
        return {"fatal": f"run timed out after {RUN_TIMEOUT}s", "seed": sched.get("seed")}
    try:
        return pickle.loads(b"".join(chunks))
    except Exception as e:  # noqa: BLE001
        return {"fatal": f"worker died (status {status}): {type(e).__name__}", "seed": sched.get("seed")}


def run_seed(job):
    """Pool entry point: job = (seed, mode, tier) or ('sched', schedule)."""
    if job[0] == "sched":
        return run_forked(job[1])
    seed, mode, tier = job
    sched = gen.generate(seed, mode, tier)
    rec = run_forked(sched)
    rec["n_sched_events"] = len(sched["events"])
    return rec


HASHSEEDS = ("0", "101", "20202", "3030303")


def job_class(job) -> int:
    """Zygote class (hash seed + warm-up variant) of a job: a pure function of its seed, recorded in replay files."""
    if job[0] == "sched":
        return int(job[1].get("zclass", 0)) % len(HASHSEEDS)
    return job[0] % len(HASHSEEDS)


def zygote_main():
    """A warm zygote: reads jobs (JSON lines) on stdin, forks one child per run, answers with a pickled record."""
    import base64

    proto_out = os.fdopen(os.dup(1), "w")
    devnull = os.open(os.devnull, os.O_WRONLY)
    os.dup2(devnull, 1)
    signal.signal(signal.SIGINT, signal.SIG_IGN)
    for line in sys.stdin:
        job = json.loads(line)
        job = tuple(job) if job[0] != "sched" else ("sched", job[1])
        try:
            rec = run_seed(job)
        except BaseException as e:  # noqa: BLE001
            rec = {"fatal": f"zygote: {type(e).__name__}: {e}", "trace": traceback.format_exc(limit=6)}
        rec["hashseed"] = os.environ.get("PYTHONHASHSEED")
        rec["zclass"] = int(os.environ.get("VERIF_WARM_VARIANT", "0"))
        proto_out.write(base64.b64encode(pickle.dumps(rec)).decode() + "\n")
        proto_out.flush()
    os._exit(0)


class ZygotePool:
    """N warm zygote interpreters, each started with its own PYTHONHASHSEED; a job goes to a zygote of the hash
    seed its seed selects, so that `seed -> execution` stays a function."""

    def __init__(self, n=None, hashseeds=HASHSEEDS):
        import queue
        import subprocess
        import threading

        n = n or min(16, os.cpu_count() or 4)
        n = max(n, len(hashseeds))
        th = env.tree_hash()
        self.queues = {c: queue.Queue() for c in range(len(hashseeds))}
        self.procs = []
        self.threads = []
        self.closed = False
        for i in range(n):
            c = i % len(hashseeds)
            e = env.child_env(threads="1", hashseed=hashseeds[c], th=th)
            e["VERIF_WARM_VARIANT"] = str(c)
            p = subprocess.Popen([env.PY, "-W", "ignore", "-c", "from sim import runner; runner.zygote_main()"],
                                 cwd=env.VERIF, env=e,
                                 stdin=subprocess.PIPE, stdout=subprocess.PIPE, stderr=subprocess.DEVNULL, text=True,
                                 bufsize=1)
            self.procs.append(p)
            t = threading.Thread(target=self._serve, args=(p, self.queues[c]), daemon=True)
            t.start()
            self.threads.append(t)

    def _serve(self, p, q):
        import base64

        while True:
            item = q.get()
            if item is None:
                return
            job, fut = item
            if fut.cancelled():
                continue
            try:
                p.stdin.write(json.dumps(list(job), default=str) + "\n")
                p.stdin.flush()
                line = p.stdout.readline()
                if not line:
                    raise RuntimeError("zygote died")
                fut.set_result(pickle.loads(base64.b64decode(line)))
            except BaseException as e:  # noqa: BLE001
                fut.set_result({"fatal": f"zygote pool: {type(e).__name__}: {e}",
                                "seed": job[0] if job[0] != "sched" else job[1].get("seed")})
                return

    def submit(self, fn_ignored, job):
        from concurrent.futures import Future

        fut = Future()
        fut.set_running_or_notify_cancel()
        self.queues[job_class(job)].put((job, fut))
        return fut

    def shutdown(self, wait=False, cancel_futures=True):
        if self.closed:
            return
        self.closed = True
        for q in self.queues.values():
            for _ in range(len(self.procs)):
                q.put(None)
        for p in self.procs:
            try:
                p.kill()
            except Exception:  # noqa: BLE001
                pass
        for p in self.procs:
            try:
                p.wait(timeout=5)
            except Exception:  # noqa: BLE001
                pass


def make_pool(n=None):
    return ZygotePool(n)


def ensure_numba_cache():
    """Warm the Numba cache for the current tree once, in one process, before a pool is forked."""
    import subprocess

    env.ensure_native()
    th = env.tree_hash()
    d = env.numba_cache_dir("shared", th)
    marker = os.path.join(d, ".warm")
    if os.path.exists(marker):
        return d, False
    os.makedirs(d, exist_ok=True)
    # prune caches of other trees
    root = os.path.dirname(os.path.dirname(d))
    if os.path.isdir(root):
        import shutil

        for name in os.listdir(root):
            if name != th[:16]:
                shutil.rmtree(os.path.join(root, name), ignore_errors=True)
    procs = []
    for fam in ("daily", "billing", "hourly"):
        code = f"from sim import runner; runner._warm_up(only={fam!r}, variant=0)"
        procs.append(subprocess.Popen([env.PY, "-W", "ignore", "-c", code], cwd=env.VERIF, env=env.child_env(th=th),
                                      stdout=subprocess.DEVNULL, stderr=subprocess.PIPE, text=True))
    for p in procs:
        try:
            _o, err = p.communicate(timeout=900)
        except subprocess.TimeoutExpired:
            p.kill()
            raise RuntimeError("HARNESS-ERROR numba warm-up timed out")
        if p.returncode != 0:
            raise RuntimeError("HARNESS-ERROR numba warm-up failed:\n" + (err or "")[-2000:])
    with open(marker, "w") as f:
        f.write(th)
    return d, True
