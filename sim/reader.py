"""Independent reader of a stored daily/billing model: evaluates the documented piecewise heating/cooling
curve from NOTHING BUT the JSON text (coefficients, temperature constraints, season and weekday maps).

This is the small executable reference model for the last clause of C01 ("the prediction is exactly what the
documented formula gives when evaluated from the JSON parameters alone").  Plain NumPy, no library import.
Compared with tolerance 1e-9*max(1,|y|) because Numba's and NumPy's exp may differ in the last place —
weaker than the property's "exactly", never stricter.
"""
from __future__ import annotations

import json

import numpy as np

MONTHS = ["january", "february", "march", "april", "may", "june", "july", "august", "september", "october",
          "november", "december"]
DAYS = ["monday", "tuesday", "wednesday", "thursday", "friday", "saturday", "sunday"]
SEASON_ABBR = {"su": "summer", "sh": "shoulder", "wi": "winter"}
LN_MAX = float(np.log(np.finfo(np.float64).max))
LN_MIN = float(np.log(np.finfo(np.float64).tiny))


def _smooth_coeffs(hdd_bp, pct_hdd_k, cdd_bp, pct_cdd_k, min_pct_k=0.01):
    if pct_hdd_k < min_pct_k and pct_cdd_k < min_pct_k:
        return hdd_bp, 0.0, cdd_bp, 0.0
    s = pct_hdd_k + pct_cdd_k
    if s > 1:
        pct_hdd_k /= s
        pct_cdd_k /= s
    hdd_k = pct_hdd_k * (cdd_bp - hdd_bp)
    cdd_k = pct_cdd_k * (cdd_bp - hdd_bp)
    return hdd_bp + hdd_k, hdd_k, cdd_bp - cdd_k, cdd_k


def _canonical(co, tc):
    """[hdd_bp, hdd_beta, hdd_k, cdd_bp, cdd_beta, cdd_k, intercept] from the stored coefficients."""
    mt = co["model_type"]
    b0 = co["intercept"]
    T_min, T_max = tc["T_min"], tc["T_max"]
    if mt == "tidd":
        x = [0.0, 0.0, 0.0, 0.0, 0.0, 0.0, b0]
    elif mt in ("hdd_tidd_cdd", "hdd_tidd_cdd_smooth"):
        hk = co["hdd_k"] if mt.endswith("smooth") else 0.0
        ck = co["cdd_k"] if mt.endswith("smooth") else 0.0
        x = [co["hdd_bp"], co["hdd_beta"], hk, co["cdd_bp"], co["cdd_beta"], ck, b0]
    else:
        heating = mt.startswith("hdd")
        bp = co["hdd_bp"] if heating else co["cdd_bp"]
        beta = co["hdd_beta"] if heating else co["cdd_beta"]
        smooth = mt.endswith("smooth")
        k = (co["hdd_k"] if heating else co["cdd_k"]) if smooth else 0.0
        if not smooth:
            bp = min(max(bp, tc["T_min_seg"]), tc["T_max_seg"])
        if beta < 0:
            x = [bp, -beta, k, bp, 0.0, 0.0, b0]
        else:
            x = [bp, 0.0, 0.0, bp, beta, k, b0]
    hb, hbeta, hk, cb, cbeta, ck, b0 = x
    if cb < hb:
        hb, cb, hbeta, cbeta, hk, ck = cb, hb, cbeta, hbeta, ck, hk
    if hb != cb:
        if cb >= T_max:
            cbeta = 0.0
        elif hb <= T_min:
            hbeta = 0.0
    if hbeta == 0:
        hk = 0.0
    if cbeta == 0:
        ck = 0.0
    if mt == "hdd_tidd_cdd_smooth":
        hb, hk, cb, ck = _smooth_coeffs(hb, hk, cb, ck)
    return hb, hbeta, hk, cb, cbeta, ck, b0


def curve(co, tc, T):
    """Predicted usage and heating/cooling loads for temperatures T."""
    hb, hbeta, hk, cb, cbeta, ck, b0 = _canonical(co, tc)
    T = np.asarray(T, dtype="float64")
    T_min, T_max = tc["T_min"], tc["T_max"]
    if hbeta == 0 and cbeta == 0:
        y = np.full(T.shape, b0, dtype="float64")
    else:
        h2, c2, hbeta2, cbeta2, hk2, ck2 = hb, cb, hbeta, cbeta, hk, ck
        if c2 < h2:
            h2, c2, hbeta2, cbeta2, hk2, ck2 = c2, h2, cbeta2, hbeta2, ck2, hk2
        y = np.empty(T.shape, dtype="float64")
        for n, Ti in enumerate(T):
            if Ti < h2 or (h2 == c2 and c2 >= T_max):
                bp, beta, k = h2, -hbeta2, hk2
            elif Ti > c2 or (h2 == c2 and h2 <= T_min):
                bp, beta, k = c2, cbeta2, -ck2
            else:
                bp, beta, k = 0.0, 0.0, 0.0
            if beta == 0:
                y[n] = b0
            elif k == 0:
                y[n] = beta * (Ti - bp) + b0
            else:
                e = min(max((Ti - bp) / k, LN_MIN), LN_MAX)
                y[n] = abs(beta * k) * (np.exp(e) - 1) + beta * (Ti - bp) + b0
    load = y - b0
    heat = np.where(T <= hb, load, 0.0)
    cool = np.where(T >= cb, load, 0.0)
    return y, heat, cool


def check(doc_text: str, frame) -> dict:
    """Compare a prediction frame of a daily/billing model with the reader's evaluation of its document."""
    doc = json.loads(doc_text)
    settings = doc["settings"]
    season_of_month = {i + 1: settings["season"][m] for i, m in enumerate(MONTHS)}
    kind_of_day = {i + 1: settings["weekday_weekend"][d] for i, d in enumerate(DAYS)}
    day_sets = {"fw": set(range(1, 8)), "wd": {d for d, k in kind_of_day.items() if k == "weekday"},
                "we": {d for d, k in kind_of_day.items() if k == "weekend"}}
    idx = frame.index
    month = np.asarray(idx.month)
    dow = np.asarray(idx.dayofweek) + 1
    T = frame["temperature"].to_numpy(dtype="float64")
    pred = frame["predicted"].to_numpy(dtype="float64")
    have = np.isfinite(pred)
    want = {c: np.full(len(frame), np.nan) for c in ("predicted", "heating_load", "cooling_load", "predicted_unc")}
    split = np.array([None] * len(frame), dtype=object)
    mtype = np.array([None] * len(frame), dtype=object)
    owners = np.zeros(len(frame), dtype=int)
    for key, sm in doc["submodels"].items():
        days = day_sets[key[:2]]
        seasons = {SEASON_ABBR[a] for a in key[3:].split("_")}
        m = np.array([(season_of_month[mo] in seasons) and (d in days) for mo, d in zip(month, dow)], dtype=bool)
        owners += m.astype(int)
        sel = m & np.isfinite(T)
        if sel.any():
            y, h, c = curve(sm["coefficients"], sm["temperature_constraints"], T[sel])
            want["predicted"][sel] = y
            want["heating_load"][sel] = h
            want["cooling_load"][sel] = c
            want["predicted_unc"][sel] = sm["f_unc"]
            split[sel] = key
            mtype[sel] = sm["coefficients"]["model_type"]
    bad = []
    n = int(have.sum())
    if n:
        for c in ("predicted", "heating_load", "cooling_load", "predicted_unc"):
            if c not in frame.columns:
                continue
            got = frame[c].to_numpy(dtype="float64")[have]
            w = want[c][have]
            tol = 1e-9 * np.maximum(1.0, np.abs(w))
            ok = (np.abs(got - w) <= tol) | (np.isnan(got) & np.isnan(w)) | (np.isinf(got) & (got == w))
            if not ok.all():
                bad.append(c)
        if "model_split" in frame.columns and (frame["model_split"].to_numpy(dtype=object)[have] != split[have]).any():
            bad.append("model_split")
        if "model_type" in frame.columns and (frame["model_type"].to_numpy(dtype=object)[have] != mtype[have]).any():
            bad.append("model_type")
        if (owners[have] != 1).any():
            bad.append("routing")
    return {"checked": n, "bad": bad}
