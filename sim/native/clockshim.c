/* LD_PRELOAD shim: the simulator's clock seam for native code.
 *
 * NLopt (the optimiser behind the daily/billing fit) reads the wall clock with gettimeofday() for its
 * maxtime stop criterion (and getpid()/time for seeding stochastic algorithms).  Python-level patching
 * cannot reach that, so the simulated clock is injected here: the harness writes into verif_clock_ctl
 * (plain process memory, found through ctypes; copied on fork, so every run has its own) and the shim
 * adds the offset to what gettimeofday() reports.  With the control words at zero it is a pass-through.
 *
 *   ctl[0]  number of gettimeofday() calls seen            (read by the harness: reach probe)
 *   ctl[1]  apply the pending jump when ctl[0] reaches this (0 = nothing pending)
 *   ctl[2]  pending jump, microseconds (may be negative)
 *   ctl[3]  accumulated offset, microseconds
 */
#define _GNU_SOURCE
#include <dlfcn.h>
#include <sys/time.h>
#include <stddef.h>

volatile long long verif_clock_ctl[4] = {0, 0, 0, 0};

typedef int (*gtod_t)(struct timeval *, void *);
static gtod_t real_gtod = NULL;

int gettimeofday(struct timeval *restrict tv, void *restrict tz)
{
    if (!real_gtod)
        real_gtod = (gtod_t)dlsym(RTLD_NEXT, "gettimeofday");
    int r = real_gtod(tv, tz);
    if (tv) {
        verif_clock_ctl[0]++;
        if (verif_clock_ctl[1] > 0 && verif_clock_ctl[0] >= verif_clock_ctl[1]) {
            verif_clock_ctl[3] += verif_clock_ctl[2];
            verif_clock_ctl[1] = 0;
        }
        if (verif_clock_ctl[3] != 0) {
            long long us = (long long)tv->tv_sec * 1000000LL + (long long)tv->tv_usec + verif_clock_ctl[3];
            tv->tv_sec = us / 1000000LL;
            tv->tv_usec = us % 1000000LL;
        }
    }
    return r;
}
