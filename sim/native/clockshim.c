/* LD_PRELOAD shim: the simulator's clock seam for native code.
 *
 * Two kinds of native readers are covered: gettimeofday() (NLopt), and clock_gettime(CLOCK_REALTIME) / time()
 * (datetime.now(), pandas.Timestamp.now(), numpy.datetime64("now"), date.today() ...), so that "today" is a
 * schedule decision as well: the harness adds whole days, months or years to ctl[3] between two operations.
 * CLOCK_MONOTONIC and friends are left alone (timeouts of the harness itself use them).
 *
 * NLopt (the optimiser behind the daily/billing fit) reads the wall clock with gettimeofday() for its
 * maxtime stop criterion (and getpid()/time for seeding stochastic algorithms).  Python-level patching
 * cannot reach that, so the simulated clock is injected here: the harness writes into verif_clock_ctl
 * (plain process memory, found through ctypes; copied on fork, so every run has its own) and the shim
 * adds the offset to what gettimeofday() reports.  With the control words at zero it is a pass-through.
 *
 *   ctl[0]  number of gettimeofday() calls seen            (read by the harness: reach probe)
 *   ctl[1]  apply the pending jump when ctl[0] reaches this (0 = nothing pending)
 *   ctl[2]  pending jump, microseconds (may be negative)
 *   ctl[3]  accumulated offset, microseconds
 */
#define _GNU_SOURCE
#include <dlfcn.h>
#include <sys/time.h>
#include <stddef.h>
#include <time.h>

volatile long long verif_clock_ctl[4] = {0, 0, 0, 0};

typedef int (*gtod_t)(struct timeval *, void *);
static gtod_t real_gtod = NULL;

int gettimeofday(struct timeval *restrict tv, void *restrict tz)
{
    if (!real_gtod)
        real_gtod = (gtod_t)dlsym(RTLD_NEXT, "gettimeofday");
    int r = real_gtod(tv, tz);
    if (tv) {
        verif_clock_ctl[0]++;
        if (verif_clock_ctl[1] > 0 && verif_clock_ctl[0] >= verif_clock_ctl[1]) {
            verif_clock_ctl[3] += verif_clock_ctl[2];
            verif_clock_ctl[1] = 0;
        }
        if (verif_clock_ctl[3] != 0) {
            long long us = (long long)tv->tv_sec * 1000000LL + (long long)tv->tv_usec + verif_clock_ctl[3];
            tv->tv_sec = us / 1000000LL;
            tv->tv_usec = us % 1000000LL;
        }
    }
    return r;
}

typedef int (*cgt_t)(clockid_t, struct timespec *);
static cgt_t real_cgt = NULL;

int clock_gettime(clockid_t id, struct timespec *ts)
{
    if (!real_cgt)
        real_cgt = (cgt_t)dlsym(RTLD_NEXT, "clock_gettime");
    int r = real_cgt(id, ts);
    if (r == 0 && ts && id == CLOCK_REALTIME && verif_clock_ctl[3] != 0) {
        long long ns = (long long)ts->tv_sec * 1000000000LL + (long long)ts->tv_nsec + verif_clock_ctl[3] * 1000LL;
        long long sec = ns / 1000000000LL;
        long long rem = ns % 1000000000LL;
        if (rem < 0) { rem += 1000000000LL; sec -= 1; }
        ts->tv_sec = (time_t)sec;
        ts->tv_nsec = (long)rem;
    }
    return r;
}

typedef time_t (*time_fn_t)(time_t *);
static time_fn_t real_time = NULL;

time_t time(time_t *t)
{
    if (!real_time)
        real_time = (time_fn_t)dlsym(RTLD_NEXT, "time");
    time_t v = real_time(NULL);
    if (verif_clock_ctl[3] != 0) {
        long long us = verif_clock_ctl[3];
        long long s = us / 1000000LL;
        if (us % 1000000LL < 0) s -= 1;
        v += (time_t)s;
    }
    if (t) *t = v;
    return v;
}
