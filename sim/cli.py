"""./check <property> [--tier quick|thorough] [--replay FILE] [--runs N]

Exit 0: the property held on everything explored (KNOWN-FINDING lines allowed).
Exit 1: `VIOLATION property=<id> replay=<path>`.   Exit 2: `HARNESS-ERROR ...` (never a pass, never a verdict).
"""
from __future__ import annotations

import os
import sys

# ---- process bootstrap: before numpy can be imported anywhere below
if os.environ.get("PYTHONHASHSEED") != "0" and not os.environ.get("VERIF_NO_REEXEC"):
    os.environ["PYTHONHASHSEED"] = "0"
    os.execv(sys.executable, [sys.executable, "-W", "ignore"] + sys.argv)
for _k in ("OMP_NUM_THREADS", "MKL_NUM_THREADS", "OPENBLAS_NUM_THREADS"):
    os.environ[_k] = "1"
os.environ["OPENDSM_EEMETER_VERIF"] = "1"

import argparse  # noqa: E402
import json  # noqa: E402
import time  # noqa: E402

HERE = os.path.dirname(os.path.dirname(os.path.abspath(__file__)))
sys.path.insert(0, HERE)

from sim import env  # noqa: E402

os.environ["NUMBA_CACHE_DIR"] = env.numba_cache_dir("shared")

# every check invocation gets its own temp directory, shared by all its runs and workers (files a library writes
# there are shared state of the simulated fleet) and removed afterwards (nothing leaks into the next invocation)
import atexit  # noqa: E402
import shutil  # noqa: E402

_TMP = os.path.join(env.CACHE_ROOT, "tmp", str(os.getpid()))
os.makedirs(_TMP, exist_ok=True)
os.environ["TMPDIR"] = _TMP
atexit.register(shutil.rmtree, _TMP, True)

PROPS = ("C01", "C02", "C03", "C04", "C05")
QUICK_RUNS = {"C01": 96, "C02": 96, "C03": 80, "C04": 112, "C05": 96}
THOROUGH_RUNS = {"C01": 800, "C02": 800, "C03": 640, "C04": 800, "C05": 800}
QUICK_FLEET = {"C01": 6, "C03": 8, "C04": 4}
THOROUGH_FLEET = {"C01": 32, "C03": 48, "C04": 24}


def main(argv=None):
    ap = argparse.ArgumentParser()
    ap.add_argument("prop")
    ap.add_argument("--tier", default=os.environ.get("VERIF_TIER", "quick"), choices=["quick", "thorough"])
    ap.add_argument("--replay")
    ap.add_argument("--runs", type=int)
    ap.add_argument("--fleet-runs", type=int)
    ap.add_argument("--seed", type=int, default=int(os.environ.get("VERIF_SEED", "0")))
    ap.add_argument("--no-minimise", action="store_true")
    ap.add_argument("--no-evidence", action="store_true")
    ap.add_argument("--jobs", type=int, default=int(os.environ.get("VERIF_JOBS", "0")) or None)
    ap.add_argument("-v", "--verbose", action="store_true")
    a = ap.parse_args(argv)

    from sim import batch

    if a.prop == "selftest":
        return batch.selftest(a)
    if a.prop == "setup":
        return batch.setup(a)
    if a.prop not in PROPS:
        print(f"HARNESS-ERROR unknown property {a.prop}")
        return 2
    if a.replay:
        return batch.replay_cmd(a)
    runs = a.runs if a.runs is not None else (QUICK_RUNS if a.tier == "quick" else THOROUGH_RUNS)[a.prop]
    fleet = a.fleet_runs if a.fleet_runs is not None else (QUICK_FLEET if a.tier == "quick" else THOROUGH_FLEET).get(
        a.prop, 0)
    return batch.check(a, runs, fleet)


if __name__ == "__main__":
    sys.exit(main())
