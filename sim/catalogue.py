"""Deterministic dataset catalogue: the workload alphabet of the simulator.

A *recipe* is a small JSON-able dict; `build(recipe)` returns fresh caller-side
frames/series plus the library constructor to hand them to.  All randomness comes
from numpy.random.default_rng(<function of the recipe>) — never from the global
RNG and never from the run's PRNG — so a recipe is the same frames in every
process forever.

Recipe keys
  fam    : "daily" | "billing" | "hourly" | "caltrack"          (data-class family)
  mid    : int   meter id (generator parameters are a pure function of it)
  role   : "baseline" | "reporting"
  tz     : IANA zone of the meter
  entry  : "series" | "frame"
  defect : None | "short" | "long" | "gaps" | "tmonth" | "neg" | "noise" | "short9"   (baseline only)
  span   : "day" | "week" | "month" | "partial" | "full" | "baseline"                  (reporting only)
  obs    : "present" | "scaled" | "shuffled" | "partnan" | "allnan" | "absent"        (reporting only)
  tgap   : 0 | 1   temperature gaps in the reporting period
  ghi    : bool    (hourly only) irradiance column present
  bill   : "monthly" | "bimonthly"  (billing only)
"""
from __future__ import annotations

import zlib

import numpy as np
import pandas as pd

TZS = ["America/Chicago", "US/Pacific", "Europe/London", "Australia/Sydney", "Asia/Kolkata", "UTC"]
STD_OFFSET_H = {"America/Chicago": -6, "US/Pacific": -8, "Europe/London": 0, "Australia/Sydney": 10,
                "Asia/Kolkata": 5, "UTC": 0,
                # look-alikes: different zones that share the UTC offset of a catalogue zone (always or in winter)
                "America/Regina": -6, "America/Vancouver": -8, "Europe/Lisbon": 0, "Australia/Melbourne": 10,
                "Asia/Colombo": 5, "Atlantic/Reykjavik": 0, "Etc/GMT+6": -6,
                # fixed-offset tzinfo objects (no IANA name)
                "pytzfixed:-360": -6, "dtfixed:330": 5, "pytzfixed:600": 10, "Australia/Brisbane": 10}
FIXED_TZS = ["pytzfixed:-360", "dtfixed:330", "pytzfixed:600"]
STD_OFFSET_H.update({"Etc/GMT+8": -8, "Pacific/Pitcairn": -8})
# zones with the same standard offset but the other daylight-saving behaviour: two gapless hourly periods that begin
# and end in standard time have the same first instant, last instant and length in both, and other wall clocks inside
CONTRAST = {"America/Chicago": ["America/Regina", "Etc/GMT+6", "pytzfixed:-360"], "America/Regina": ["America/Chicago"],
            "Etc/GMT+6": ["America/Chicago"], "pytzfixed:-360": ["America/Chicago"],
            "US/Pacific": ["Etc/GMT+8", "Pacific/Pitcairn"], "America/Vancouver": ["Etc/GMT+8", "Pacific/Pitcairn"],
            "Etc/GMT+8": ["US/Pacific"], "Pacific/Pitcairn": ["US/Pacific", "America/Vancouver"],
            "Europe/London": ["UTC", "Atlantic/Reykjavik"], "Europe/Lisbon": ["UTC", "Atlantic/Reykjavik"],
            "UTC": ["Europe/London", "Europe/Lisbon"], "Atlantic/Reykjavik": ["Europe/London"],
            "Australia/Sydney": ["Australia/Brisbane", "pytzfixed:600"], "Australia/Melbourne": ["Australia/Brisbane"],
            "Australia/Brisbane": ["Australia/Sydney"], "pytzfixed:600": ["Australia/Sydney", "Australia/Melbourne"]}
LOOKALIKE = {"America/Chicago": ["America/Regina", "Etc/GMT+6"], "US/Pacific": ["America/Vancouver"],
             "Europe/London": ["Europe/Lisbon", "UTC", "Atlantic/Reykjavik"], "Australia/Sydney": ["Australia/Melbourne"],
             "Asia/Kolkata": ["Asia/Colombo"], "UTC": ["Atlantic/Reykjavik", "Europe/London"],
             "pytzfixed:-360": ["Etc/GMT+6", "America/Regina"], "dtfixed:330": ["Asia/Colombo", "Asia/Kolkata"],
             "pytzfixed:600": ["Australia/Brisbane"]}
SPANS = {"day": 1, "week": 7, "month": 30, "partial": 150, "full": 365, "long": 400}
START_DAY = "2015-12-03"
BLACKOUT_DAYS = 10

_W = None  # hourly weather, UTC, from the shipped il-tempF sample
_W0 = None


def _weather():
    global _W, _W0
    if _W is None:
        from opendsm.eemeter.samples import load_sample

        _m, t, _meta = load_sample("il-electricity-cdd-hdd-daily")
        v = t.to_numpy(dtype="float64").copy()
        # the sample has no gaps; make sure of it so that gaps are only the ones recipes add
        if np.isnan(v).any():
            s = pd.Series(v).interpolate(limit_direction="both")
            v = s.to_numpy()
        _W = v
        _W0 = t.index[0].tz_convert("UTC")
    return _W, _W0


def rid(recipe: dict) -> str:
    """Stable text key of a recipe."""
    return ",".join(f"{k}={recipe[k]}" for k in sorted(recipe) if recipe[k] is not None)


def _seed(*parts) -> int:
    return zlib.crc32(repr(parts).encode()) & 0x7FFFFFFF


def meter_params(mid: int) -> dict:
    g = np.random.default_rng(_seed("meter", mid))
    kind = ["both", "heat", "cool", "flat"][mid % 4]
    p = {
        "kind": kind,
        "base": float(g.uniform(8, 40)),
        "hbp": float(g.uniform(46, 58)),
        "cbp": float(g.uniform(63, 74)),
        "bh": float(g.uniform(0.4, 2.5)) if kind in ("both", "heat") else 0.0,
        "bc": float(g.uniform(0.4, 2.5)) if kind in ("both", "cool") else 0.0,
        "smooth": float(g.uniform(2, 6)) if (mid // 4) % 2 == 1 else 0.0,
        "wk": float(g.uniform(0.55, 0.8)) if (mid // 8) % 2 == 1 else 1.0,
        "season": float(g.uniform(1.3, 1.8)) if (mid // 16) % 2 == 1 else 1.0,
        "noise": float(g.choice([0.01, 0.03, 0.06])),
        "tshift": float(g.uniform(-6, 6)),
        "electric": not (kind in ("heat", "flat") and (mid // 2) % 2 == 1),
        "pv": float(g.uniform(0.0008, 0.002)),
        "zeros": (mid % 3 == 0),   # a few zero readings (electric: the data classes turn them into missing)
        "lowload": False,
    }
    special = mid % 16
    if special == 14:      # heats over the whole temperature range: the fitted balance point sits on the upper limit
        p.update(kind="heat", hbp=105.0, bh=max(p["bh"], 0.8), bc=0.0, smooth=0.0, electric=True)
    elif special == 13:    # cools over the whole range: balance point on the lower limit
        p.update(kind="cool", cbp=-5.0, bc=max(p["bc"], 0.5), bh=0.0, smooth=0.0, electric=True)
    elif special == 15:    # almost no base load, steep cooling: a linear model undershoots below zero near the kink
        p.update(kind="cool", base=0.6, bc=2.5, bh=0.0, cbp=66.0, smooth=0.0, electric=True, lowload=True, zeros=False,
                 noise=0.01)
    return p


def tzobj(tz: str):
    """Catalogue zone label -> what the caller localises with: an IANA name, or a fixed-offset tzinfo OBJECT
    ("pytzfixed:<minutes>" -> pytz.FixedOffset, "dtfixed:<minutes>" -> datetime.timezone)."""
    if tz.startswith("pytzfixed:"):
        import pytz

        return pytz.FixedOffset(int(tz.split(":")[1]))
    if tz.startswith("dtfixed:"):
        import datetime as _dt

        return _dt.timezone(_dt.timedelta(minutes=int(tz.split(":")[1])))
    return tz


def _local_days(tz: str, first_day: int, n_days: int) -> pd.DatetimeIndex:
    naive = pd.date_range(pd.Timestamp(START_DAY) + pd.Timedelta(days=first_day), periods=n_days, freq="D")
    return pd.DatetimeIndex(naive.values).tz_localize(tzobj(tz))


def _hourly_index(tz: str, first_day: int, n_days: int) -> pd.DatetimeIndex:
    d = _local_days(tz, first_day, n_days + 1)
    return pd.date_range(d[0], d[-1], freq="h", inclusive="left")


def _temperature(idx: pd.DatetimeIndex, tz: str, p: dict) -> np.ndarray:
    W, W0 = _weather()
    k = ((idx.tz_convert("UTC") - W0) / pd.Timedelta(hours=1)).astype("int64").to_numpy()
    k = k + (STD_OFFSET_H[tz] + 6)
    if k.min() < 0 or k.max() >= len(W):
        raise ValueError("catalogue: period outside the weather record")
    return W[k] + p["tshift"]


def _softplus(x, k):
    if k <= 0:
        return np.maximum(x, 0.0)
    return k * np.logaddexp(0.0, x / k)


def _daily_usage(days: pd.DatetimeIndex, tday: np.ndarray, p: dict, g) -> np.ndarray:
    heat = p["bh"] * _softplus(p["hbp"] - tday, p["smooth"])
    cool = p["bc"] * _softplus(tday - p["cbp"], p["smooth"])
    month = days.month.to_numpy()
    dow = days.dayofweek.to_numpy()
    summer = np.isin(month, [6, 7, 8, 9])
    cool = np.where(summer, cool * p["season"], cool)
    base = np.where(np.isin(month, [11, 12, 1, 2]), p["base"] * (2 - 1 / p["season"]) if p["season"] != 1 else p["base"],
                    p["base"])
    y = base + heat + cool
    y = np.where(dow >= 5, y * p["wk"], y)
    y = y * np.exp(g.normal(0, p["noise"], len(y))) + g.normal(0, 0.02 * p["base"], len(y))
    return np.maximum(y, 0.05)


def _ghi(idx: pd.DatetimeIndex, g) -> np.ndarray:
    h = idx.hour.to_numpy()
    doy = idx.dayofyear.to_numpy()
    clear = np.maximum(0.0, np.sin(np.pi * (h - 6) / 12.0)) * (600 + 300 * np.cos(2 * np.pi * (doy - 172) / 365.0))
    # one cloud factor per local date
    dates = pd.Index(idx.date)
    codes, uniq = pd.factorize(dates)
    cloud = g.uniform(0.3, 1.0, len(uniq))[codes]
    return clear * cloud


def _hourly_usage(idx: pd.DatetimeIndex, temp: np.ndarray, ghi, p: dict, g) -> np.ndarray:
    h = idx.hour.to_numpy()
    dow = idx.dayofweek.to_numpy()
    occ = 0.6 + 0.5 * np.exp(-((h - 19) ** 2) / 18.0) + 0.3 * np.exp(-((h - 8) ** 2) / 8.0)
    occ = np.where(dow >= 5, occ * (0.7 + 0.6 * (1 - p["wk"])) + 0.15, occ)
    month = idx.month.to_numpy()
    seas = np.where(np.isin(month, [6, 7, 8, 9]), p["season"], 1.0)
    y = (p["base"] / 24.0) * occ
    y = y + p["bh"] / 24.0 * _softplus(p["hbp"] - temp, p["smooth"]) + seas * p["bc"] / 24.0 * _softplus(
        temp - p["cbp"], p["smooth"])
    if ghi is not None:
        y = y - p["pv"] * ghi * (p["base"] / 24.0)
    y = y * np.exp(g.normal(0, 2 * p["noise"], len(y))) + g.normal(0, 0.01 * p["base"] / 24.0, len(y))
    if ghi is None:
        y = np.maximum(y, 0.01)
    return y


def _period(recipe: dict):
    """(first_day, n_days) of the recipe relative to START_DAY."""
    defect = recipe.get("defect")
    nb = 365
    dparts = set((defect or "").split("+"))
    if "short" in dparts:
        nb = 300
    elif "long" in dparts:
        nb = 400
    elif "short9" in dparts:
        nb = 280
    if recipe["role"] == "baseline" or recipe.get("span") == "baseline":
        return 0, nb
    n = SPANS[recipe["span"]]
    first = nb + BLACKOUT_DAYS
    if recipe["span"] in ("day", "week", "month"):
        # not always the first days after the blackout: move with the meter id
        first += (recipe["mid"] * 37) % 200
    return first, n


def _alter_observed(y: np.ndarray, obs: str, g, idx=None) -> np.ndarray:
    y = y.copy()
    if obs == "monthnan" and idx is not None and len(idx) == len(y) and len(y) > 40:
        # an outage covering one whole calendar month (the first full one after the first third of the period)
        per = (idx[len(idx) // 3] + pd.Timedelta(days=32)).tz_localize(None).to_period("M")
        m = np.asarray(idx.tz_localize(None).to_period("M") == per)
        if 0 < m.sum() < len(y) - 2:
            y = y * 0.9
            y[m] = np.nan
            return y
    if obs == "present":
        return y * 0.9
    if obs == "scaled":
        return y * 1.7
    if obs == "shuffled":
        return g.permutation(y)
    if obs == "partnan":
        y = y * 0.9
        m = g.random(len(y)) < 0.2
        if len(y) > 3:
            m[:1] = False  # keep the first value so that from_series trimming does not move the start
            m[-1:] = False
        y[m] = np.nan
        return y
    if obs == "partnan2":
        # the same number of blanked readings as "partnan", at other positions
        y = y * 0.9
        m = g.random(len(y)) < 0.2
        if len(y) > 3:
            m[:1] = False
            m[-1:] = False
            inner = m[1:-1].copy()
            m[1:-1] = np.roll(inner, max(1, len(inner) // 3))
        y[m] = np.nan
        return y
    if obs == "monthnan":
        # an outage: a contiguous block of about a month (a fifth of shorter periods) without any reading
        y = y * 0.9
        n = len(y)
        blk = max(1, min(n // 5, 31 if n <= 800 else 31 * 24))
        st = n // 3
        y[st:st + blk] = np.nan
        return y
    if obs == "allnan":
        return np.full(len(y), np.nan)
    return y


def _apply_tgap(temp: np.ndarray, per_day: int, g) -> np.ndarray:
    temp = temp.copy()
    n_days = len(temp) // per_day
    if n_days >= 5:
        for d in sorted(g.choice(np.arange(1, n_days - 1), size=max(1, n_days // 40), replace=False)):
            temp[d * per_day:(d + 1) * per_day] = np.nan
    return temp


def build(recipe: dict):
    """Return dict(cls=<constructor name>, how="init"|"from_series", args=[...], kwargs={...}, inputs=[frames])."""
    fam = recipe["fam"]
    if recipe.get("span") == "grid":
        return _build_grid(recipe)
    if recipe.get("src") == "sample":
        return _build_sample(recipe)
    p = meter_params(recipe["mid"])
    tz = recipe["tz"]
    role = recipe["role"]
    first, n = _period(recipe)
    g = np.random.default_rng(_seed("data", recipe["mid"], role, first, n))
    ga = np.random.default_rng(_seed("alter", rid(dict(recipe, obs="partnan" if recipe.get("obs") == "partnan2"
                                                          else recipe.get("obs")))))
    # temperature gaps must not depend on how `observed` is altered (C05 pairs differ in observed only)
    gt = np.random.default_rng(_seed("tgap", recipe["mid"], first, n))
    defect = recipe.get("defect") if role == "baseline" else None
    dset = set(defect.split("+")) if defect else set()
    obs = recipe.get("obs", "present") if role == "reporting" else "raw"
    electric = p["electric"]
    if "neg" in dset:
        electric = False

    # a billing caller's temperature feed normally runs past the closing read; without that the
    # library trims the closing read away (from_series constrains the meter index to the feed)
    pad = 2 if (fam == "billing" and recipe["entry"] == "series") else 0
    hidx = _hourly_index(tz, first, n + pad)
    temp_h = _temperature(hidx, tz, p)
    if recipe.get("wx") and role == "reporting":
        # another weather scenario for the same period (a typical year instead of the actual one): same timestamps, same
        # number of rows, other temperatures
        hrs = np.arange(len(temp_h), dtype="float64")
        temp_h = temp_h + 6.0 * np.sin(2 * np.pi * hrs / (24.0 * 9.0)) + 2.5

    if fam in ("daily", "billing"):
        days = _local_days(tz, first, n)
        tday = pd.Series(temp_h, index=hidx).groupby(np.asarray(hidx.date)).mean().to_numpy()[:n]
        assert len(tday) == len(days), (len(tday), len(days))
        y = _daily_usage(days, tday, p, g)
        if "noise" in dset:
            y = np.full(len(y), p["base"] * 0.05)
            spikes = g.random(len(y)) < 0.03
            y[spikes] = p["base"] * 40 * g.uniform(0.5, 1.5, spikes.sum())
            y = y * np.exp(g.normal(0, 0.01, len(y)))
        if "neg" in dset:
            y[g.choice(len(y), 5, replace=False)] *= -1
        if "gaps" in dset:
            y[g.choice(np.arange(5, len(y) - 5), int(0.13 * len(y)), replace=False)] = np.nan
        if "tmonth" in dset:
            mask = (hidx.month == 4)
            temp_h = temp_h.copy()
            temp_h[mask] = np.nan
        if recipe.get("norm"):
            y = y / np.nanmean(y)
        if p["zeros"] and not dset and not recipe.get("norm") and len(y) > 20:
            y = y.copy()
            y[np.random.default_rng(_seed("zeros", recipe["mid"], first, n)).choice(
                np.arange(3, len(y) - 3), max(1, len(y) // 120), replace=False)] = 0.0
        y_raw = y.copy()
        if role == "reporting":
            if fam == "daily":
                y = _alter_observed(y, obs, ga, days)
            # billing: the alteration is applied to the bills themselves (see _billing_ctor), so that "partly blank"
            # means missing bills, not bills that silently sum fewer days
            if recipe.get("tgap"):
                temp_h = _apply_tgap(temp_h, 24, gt)  # DST days are 23/25 h; close enough for gap placement
        temp_series = pd.Series(temp_h, index=hidx, name="tempF")
        if fam == "daily":
            return _daily_ctor(recipe, days, y, temp_series, electric, obs, y_raw)
        return _billing_ctor(recipe, days, y, temp_series, electric, obs, ga if role == "reporting" else None)

    # hourly families
    if recipe.get("ghi"):
        electric = True
    ghi = _ghi(hidx, np.random.default_rng(_seed("ghi", recipe["mid"], first, n))) if recipe.get("ghi") else None
    y = _hourly_usage(hidx, temp_h, ghi, p, g)
    if "noise" in dset:
        y = np.full(len(y), p["base"] / 24.0 * 0.05)
        spikes = g.random(len(y)) < 0.01
        y[spikes] = p["base"] / 24 * 60 * g.uniform(0.5, 1.5, spikes.sum())
        y = y * np.exp(g.normal(0, 0.01, len(y)))
    if "neg" in dset:
        y = y.copy()
        y[g.choice(len(y), 50, replace=False)] *= -1
    if "gaps" in dset:
        y = y.copy()
        m = (hidx.month == 5)
        sel = np.flatnonzero(m)
        y[g.choice(sel, int(0.2 * len(sel)), replace=False)] = np.nan
    if "tmonth" in dset:
        temp_h = temp_h.copy()
        sel = np.flatnonzero(hidx.month == 4)
        temp_h[g.choice(sel, int(0.3 * len(sel)), replace=False)] = np.nan
    if recipe.get("norm"):
        y = y / np.nanmean(y)
    if p["zeros"] and not dset and not recipe.get("norm") and ghi is None:
        y = y.copy()
        y[np.random.default_rng(_seed("zeros", recipe["mid"], first, n)).choice(
            np.arange(30, len(y) - 30), max(1, len(y) // 500), replace=False)] = 0.0
    y_raw = y.copy()
    if role == "reporting":
        y = _alter_observed(y, obs, ga, hidx)
        if recipe.get("tgap") and len(temp_h) > 72:
            temp_h = temp_h.copy()
            sel = gt.choice(np.arange(24, len(temp_h) - 24), size=max(2, len(temp_h) // 400), replace=False)
            temp_h[sel] = np.nan
            # the same weather gaps whatever `observed` looks like: irradiance runs, absent rows, a ragged first day
            if ghi is not None and len(ghi) > 72:
                ghi = ghi.copy()
                for st in gt.choice(np.arange(30, len(ghi) - 30), size=max(1, len(ghi) // 1500), replace=False):
                    ghi[st:st + 5] = np.nan
            if len(hidx) > 72:
                keep = np.ones(len(hidx), dtype=bool)
                keep[gt.choice(np.arange(30, len(hidx) - 30), size=max(2, len(hidx) // 800), replace=False)] = False
                st = int(gt.integers(40, len(hidx) - 40))
                keep[st:st + 4] = False
                keep[:int(gt.integers(0, 7))] = False
                hidx, y, temp_h, y_raw = hidx[keep], y[keep], temp_h[keep], y_raw[keep]
                if ghi is not None:
                    ghi = ghi[keep]
    return _hourly_ctor(recipe, hidx, y, temp_h, ghi, electric, obs, y_raw)


def _build_grid(recipe):
    """A reporting frame whose daily temperatures are given explicitly (recipe["temps"]): sweeps far outside any
    fitted range, and the exact balance points / segment limits of a stored model (daily and billing families)."""
    temps = np.asarray(recipe["temps"], dtype="float64")
    tz = recipe["tz"]
    naive = pd.date_range("2017-01-01", periods=len(temps), freq="D")
    import zoneinfo

    try:
        days = pd.DatetimeIndex(naive.values).tz_localize(tzobj(tz))
    except (zoneinfo.ZoneInfoNotFoundError, Exception):  # a zone label that is no IANA name (str of a tzinfo object)
        raise ValueError(f"grid: cannot localise to {tz!r}")
    g = np.random.default_rng(_seed("grid", len(temps)))
    y = 10.0 + g.random(len(temps))
    if recipe["fam"] == "daily":
        df = pd.DataFrame({"observed": y, "temperature": temps}, index=days)
        return dict(cls="DailyReportingData", how="init", args=[df], kwargs={"is_electricity_data": True}, inputs=[df])
    # billing: an hourly feed that is constant within each local day, bills of about a month
    end = (days[-1].tz_localize(None) + pd.Timedelta(days=3)).tz_localize(tzobj(tz))
    hidx = pd.date_range(days[0], end, freq="h", inclusive="left")
    per_day = pd.Series(temps, index=np.asarray(days.date))
    th = per_day.reindex(np.asarray(hidx.date)).ffill().to_numpy()
    temp_series = pd.Series(th, index=hidx, name="tempF")
    return _billing_ctor(dict(recipe, role="reporting", entry="series", bill="monthly", mid=recipe.get("mid", 0)),
                         days, y, temp_series, True, "present")


def _with_resent(df, recipe, y_raw, obs):
    """Recipe key `dup`: a feed that re-sends some timestamps.  The re-sent record follows the first one, carries
    another temperature and a reading of its own (not blanked by a partial alteration; blank or absent when the whole
    column is).  The library documents that the first record of a timestamp is the one that counts."""
    if not recipe.get("dup") or len(df) < 6:
        return df
    n = len(df)
    k = max(2, min(12, n // 20))
    pos = np.sort(np.random.default_rng(_seed("dup", recipe["mid"], n)).choice(np.arange(1, n - 1), size=k, replace=False))
    extra = df.iloc[pos].copy()
    extra["temperature"] = extra["temperature"] + 4.0
    if "observed" in df.columns:
        extra["observed"] = np.nan if obs == "allnan" else np.asarray(y_raw)[pos] * {"scaled": 1.7, "raw": 1.0}.get(obs, 0.9)
    return pd.concat([df, extra]).sort_index(kind="stable")


def _feed(recipe, meter, temp):
    """Other legal shapes of the two series a caller hands to from_series (recipe key `feed`): the weather feed in
    UTC instead of the meter's zone, frames instead of series, columns already carrying the library's own names."""
    f = int(recipe.get("feed") or 0)
    if f == 0:
        return meter, temp
    if f in (1, 2) and (meter is not None or recipe["fam"] == "caltrack"):
        # (daily/billing with the meter series omitted: the weather feed alone defines the zone of the data object, so
        # it stays in the meter's zone there — a UTC feed would rightly be refused by the model's timezone guard)
        temp = temp.tz_convert("UTC")
    if f in (1, 3):
        temp = temp.rename("temperature").to_frame()
    elif f == 2:
        temp = temp.rename("temperature")
    if meter is not None:
        if f == 1 and isinstance(meter, pd.DataFrame):
            meter = meter.iloc[:, 0].rename("observed")
        elif f == 2:
            meter = (meter if isinstance(meter, pd.DataFrame) else meter.to_frame())
            meter = meter.rename(columns={meter.columns[0]: "observed"})
    return meter, temp


def _daily_ctor(recipe, days, y, temp_series, electric, obs, y_raw=None):
    role = recipe["role"]
    cls = "DailyBaselineData" if role == "baseline" else "DailyReportingData"
    if recipe["entry"] == "series":
        if obs == "absent":
            meter = None
        else:
            meter = pd.Series(y, index=days, name="value").to_frame()
        meter, temp_series = _feed(recipe, meter, temp_series)
        kwargs = {"is_electricity_data": electric}
        inputs = [temp_series] if meter is None else [meter, temp_series]
        return dict(cls=cls, how="from_series", args=[meter, temp_series], kwargs=kwargs, inputs=inputs)
    # frame entry: one row per day, temperature pre-aggregated by the caller
    tday = temp_series.groupby(np.asarray(temp_series.index.date)).mean().to_numpy()
    df = pd.DataFrame({"observed": y, "temperature": tday}, index=days)
    if obs == "absent":
        df = df.drop(columns=["observed"])
    df = _with_resent(df, recipe, y if y_raw is None else y_raw, obs)
    if recipe["entry"] == "frame_col":
        df = df.rename_axis("datetime").reset_index()
    return dict(cls=cls, how="init", args=[df], kwargs={"is_electricity_data": electric}, inputs=[df])


def _bill_reads(days, y, bill, mid):
    """Group daily usage into bills with uneven read dates; index = period start."""
    g = np.random.default_rng(_seed("bill", mid, bill, len(days)))
    step = 30.4 if bill == "monthly" else 60.8
    k = max(1, int(round(len(days) / step)))
    cuts = np.round(np.linspace(0, len(days), k + 1)).astype(int)
    if k > 1:
        cuts[1:-1] += g.integers(-1, 2, k - 1)
    starts = [int(c) for c in cuts[:-1]]
    ends = [int(c) for c in cuts[1:]]
    vals = []
    for a, b in zip(starts, ends):
        seg = y[a:b]
        vals.append(np.nan if np.isnan(seg).all() else float(np.nansum(seg)))
    idx = days[starts]
    return idx, np.array(vals, dtype="float64"), ends[-1]


def _billing_ctor(recipe, days, y, temp_series, electric, obs, ga=None):
    role = recipe["role"]
    cls = "BillingBaselineData" if role == "baseline" else "BillingReportingData"
    bill = recipe.get("bill", "monthly")
    if obs == "absent":
        kwargs = {"is_electricity_data": electric}
        if recipe["entry"] == "series":
            _m, temp_series = _feed(recipe, None, temp_series)
        return dict(cls=cls, how="from_series", args=[None, temp_series], kwargs=kwargs, inputs=[temp_series])
    idx, vals, _ = _bill_reads(days, y, bill, recipe["mid"])
    if ga is not None and obs not in ("raw", "absent"):
        vals = _alter_observed(vals, obs, ga)   # bills: a block of bills, no calendar alignment
    # final read closes the last period: its own value is never used (NaN convention)
    end = (days[-1].tz_localize(None) + pd.Timedelta(days=1)).tz_localize(days.tz)  # days.tz is the tzinfo object
    idx = idx.append(pd.DatetimeIndex([end]))
    vals = np.append(vals, np.nan)
    if recipe["entry"] == "series":
        meter = pd.Series(vals, index=idx, name="value").to_frame()
        meter, temp_series = _feed(recipe, meter, temp_series)
        return dict(cls=cls, how="from_series", args=[meter, temp_series],
                    kwargs={"is_electricity_data": electric}, inputs=[meter, temp_series])
    # frame entry: hourly temperature frame with the bills placed on their start rows
    df = temp_series.rename("temperature").to_frame()
    df["observed"] = pd.Series(vals[:-1], index=idx[:-1]).reindex(df.index)
    df = df[["observed", "temperature"]]
    return dict(cls=cls, how="init", args=[df], kwargs={"is_electricity_data": electric}, inputs=[df])


def _hourly_ctor(recipe, hidx, y, temp_h, ghi, electric, obs, y_raw=None):
    role = recipe["role"]
    fam = recipe["fam"]
    if fam == "hourly":
        cls = "HourlyBaselineData" if role == "baseline" else "HourlyReportingData"
        df = pd.DataFrame({"observed": y, "temperature": temp_h}, index=hidx)
        if ghi is not None:
            df["ghi"] = ghi
        if recipe.get("extra"):
            # supplemental columns a settings profile may name: a smooth series and a 0/1 flag per local day
            doy = hidx.dayofyear.to_numpy()
            df["extra_ts"] = 5.0 + 3.0 * np.sin(2 * np.pi * doy / 365.0) + 0.5 * np.cos(2 * np.pi * hidx.hour.to_numpy() / 24.0)
            df["extra_cat"] = ((doy % 7) == 3).astype("int64")
        if obs == "absent":
            df = df.drop(columns=["observed"])
        df = _with_resent(df, recipe, y if y_raw is None else y_raw, obs)
        if recipe["entry"] == "frame_col":
            df = df.rename_axis("datetime").reset_index()
        return dict(cls=cls, how="init", args=[df], kwargs={"is_electricity_data": electric}, inputs=[df])
    cls = "HourlyCaltrackBaselineData" if role == "baseline" else "HourlyCaltrackReportingData"
    if recipe["entry"] == "series":
        meter = None if obs == "absent" else pd.Series(y, index=hidx, name="value").to_frame()
        temp = pd.Series(temp_h, index=hidx, name="tempF")
        if role == "reporting" and meter is not None:
            meter = meter["value"]
        meter, temp = _feed(recipe, meter, temp)
        inputs = [temp] if meter is None else [meter, temp]
        return dict(cls=cls, how="from_series", args=[meter, temp], kwargs={"is_electricity_data": electric},
                    inputs=inputs)
    df = pd.DataFrame({"observed": y, "temperature": temp_h}, index=hidx)
    if recipe.get("res") == 30 and role == "reporting" and len(df) > 4:
        # half-hourly readings and weather: each hour's usage in two reads, the second one blank now and then (on its
        # own pattern, whatever the alteration of the hourly usage), the temperature a little apart in the two halves
        half = df.copy()
        half.index = half.index + pd.Timedelta(minutes=30)
        df["observed"] = df["observed"] / 2.0
        half["observed"] = half["observed"] / 2.0
        half["temperature"] = half["temperature"] + 0.4
        gh = np.random.default_rng(_seed("half", recipe["mid"], len(df)))
        if obs not in ("allnan", "absent"):
            half.loc[half.index[gh.random(len(half)) < 0.05], "observed"] = np.nan
        df = pd.concat([df, half]).sort_index(kind="stable")
    if obs == "absent":
        df = df.drop(columns=["observed"])
    return dict(cls=cls, how="init", args=[df], kwargs={"is_electricity_data": electric}, inputs=[df])


# ------------------------------------------------------------------ shipped samples

SAMPLES = {
    "daily": ["il-electricity-cdd-hdd-daily", "il-electricity-cdd-only-daily", "il-gas-hdd-only-daily",
              "il-gas-intercept-only-daily"],
    "billing": ["il-electricity-cdd-hdd-billing_monthly", "il-gas-hdd-only-billing_bimonthly",
                "il-electricity-cdd-only-billing_bimonthly", "il-gas-intercept-only-billing_monthly"],
    "hourly": ["il-electricity-cdd-hdd-hourly", "il-gas-hdd-only-hourly", "il-electricity-cdd-only-hourly"],
    "caltrack": ["il-electricity-cdd-hdd-hourly", "il-gas-hdd-only-hourly"],
}
_SAMPLE_CACHE = {}


def _sample(name):
    if name not in _SAMPLE_CACHE:
        from opendsm.eemeter.samples import load_sample

        _SAMPLE_CACHE[name] = load_sample(name)
    m, t, meta = _SAMPLE_CACHE[name]
    return m.copy(), t.copy(), meta


def _build_sample(recipe):
    from opendsm.eemeter.common.transform import get_baseline_data, get_reporting_data

    fam = recipe["fam"]
    name = SAMPLES[fam][recipe["mid"] % len(SAMPLES[fam])]
    m, t, meta = _sample(name)
    tz = recipe["tz"]
    m = m.tz_convert(tz)
    t = t.tz_convert(tz)
    electric = "electricity" in name
    role = recipe["role"]
    obs = recipe.get("obs", "present") if role == "reporting" else "raw"
    if role == "baseline" or recipe.get("span") == "baseline":
        seg, _w = get_baseline_data(m, end=meta["blackout_start_date"], max_days=365)
    else:
        n = SPANS[recipe["span"]]
        seg, _w = get_reporting_data(m, start=meta["blackout_end_date"], max_days=n)
    seg = seg.copy()
    ga = np.random.default_rng(_seed("alter", rid(recipe)))
    if role == "reporting" and obs not in ("present", "raw", "absent"):
        v = seg["value"].to_numpy(dtype="float64")
        last_nan = fam == "billing"
        body = v[:-1] if last_nan else v
        body = _alter_observed(body, obs, ga) / (0.9 if obs == "partnan" else 1.0)
        seg["value"] = np.append(body, np.nan) if last_nan else body
    if fam == "daily":
        cls = "DailyBaselineData" if role == "baseline" else "DailyReportingData"
        meter = None if obs == "absent" else seg
        inputs = [t] if meter is None else [meter, t]
        if meter is None:
            t = t.loc[seg.index[0]:seg.index[-1]]
            inputs = [t]
        return dict(cls=cls, how="from_series", args=[meter, t], kwargs={"is_electricity_data": electric},
                    inputs=inputs)
    if fam == "billing":
        cls = "BillingBaselineData" if role == "baseline" else "BillingReportingData"
        meter = None if obs == "absent" else seg
        if meter is None:
            t = t.loc[seg.index[0]:seg.index[-1]]
        inputs = [t] if meter is None else [meter, t]
        return dict(cls=cls, how="from_series", args=[meter, t], kwargs={"is_electricity_data": electric},
                    inputs=inputs)
    df = pd.concat([seg["value"].rename("observed"), t.rename("temperature")], axis=1).dropna(subset=["temperature"])
    df = df.loc[seg.index[0]:seg.index[-1]]
    if obs == "absent":
        df = df.drop(columns=["observed"])
    if fam == "hourly":
        cls = "HourlyBaselineData" if role == "baseline" else "HourlyReportingData"
    else:
        cls = "HourlyCaltrackBaselineData" if role == "baseline" else "HourlyCaltrackReportingData"
        if "observed" in df.columns and role == "baseline":
            df = df.dropna()
    return dict(cls=cls, how="init", args=[df], kwargs={"is_electricity_data": electric}, inputs=[df])


def construct(em, built):
    """Hand the caller-side frames to the library."""
    cls = getattr(em, built["cls"])
    if built["how"] == "init":
        return cls(*built["args"], **built["kwargs"])
    return cls.from_series(*built["args"], **built["kwargs"])


def covers_full_year(recipe: dict) -> bool:
    """Does a baseline recipe cover every calendar month and weekday? (C05 precondition)"""
    bad = {"short", "short9", "gaps", "tmonth"}
    return recipe["role"] == "baseline" and not (set((recipe.get("defect") or "").split("+")) & bad) \
        or recipe.get("src") == "sample"
