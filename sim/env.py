"""Process bootstrap shared by every executor: where things live, how the library is imported.

Nothing here draws randomness or reads a clock that feeds a decision.
"""
from __future__ import annotations

import hashlib
import os
import sys

VERIF = os.path.dirname(os.path.dirname(os.path.abspath(__file__)))
REPO = os.environ.get("VERIF_REPO", "/repo")
PY = "/venv/bin/python"
GUARD = "OPENDSM_EEMETER_VERIF"
CACHE_ROOT = os.path.join(VERIF, ".cache")


def tree_hash() -> str:
    """sha256 over the library sources of the current working tree of /repo."""
    h = hashlib.sha256()
    root = os.path.join(REPO, "opendsm")
    paths = []
    for d, _dirs, files in os.walk(root):
        if "__pycache__" in d:
            continue
        for f in files:
            if f.endswith(".py"):
                paths.append(os.path.join(d, f))
    for p in sorted(paths):
        h.update(os.path.relpath(p, root).encode())
        h.update(b"\0")
        with open(p, "rb") as fh:
            h.update(fh.read())
        h.update(b"\0")
    return h.hexdigest()


def numba_cache_dir(kind: str = "shared", th: str | None = None) -> str:
    th = th or tree_hash()
    return os.path.join(CACHE_ROOT, "numba", th[:16], kind)


NATIVE_SHIM = os.path.join(CACHE_ROOT, "libverifclock.so")
NATIVE_SRC = os.path.join(VERIF, "sim", "native", "clockshim.c")


def ensure_native():
    """Build the LD_PRELOAD clock shim (clang, offline). Returns its path or None when it cannot be built."""
    import subprocess

    try:
        if os.path.exists(NATIVE_SHIM) and os.path.getmtime(NATIVE_SHIM) >= os.path.getmtime(NATIVE_SRC):
            return NATIVE_SHIM
        os.makedirs(CACHE_ROOT, exist_ok=True)
        tmp = NATIVE_SHIM + f".{os.getpid()}.tmp"
        for cc in ("clang", "gcc", "cc"):
            r = subprocess.run([cc, "-shared", "-fPIC", "-O2", "-w", "-o", tmp, NATIVE_SRC, "-ldl"],
                               capture_output=True, text=True)
            if r.returncode == 0:
                os.replace(tmp, NATIVE_SHIM)
                return NATIVE_SHIM
    except Exception:  # noqa: BLE001
        pass
    return None


def child_env(threads: str | None = "1", hashseed: str | None = "0", tz: str | None = None,
              numba_dir: str | None = None, th: str | None = None) -> dict:
    """Environment for a worker interpreter (set before numpy is imported)."""
    env = dict(os.environ)
    env["NUMBA_CACHE_DIR"] = numba_dir or numba_cache_dir("shared", th)
    for k in ("OMP_NUM_THREADS", "MKL_NUM_THREADS", "OPENBLAS_NUM_THREADS"):
        if threads is None:
            env.pop(k, None)
        else:
            env[k] = str(threads)
    if hashseed is None:
        env.pop("PYTHONHASHSEED", None)
    else:
        env["PYTHONHASHSEED"] = str(hashseed)
    if tz is None:
        env.pop("TZ", None)
    else:
        env["TZ"] = tz
    env[GUARD] = "1"
    if os.path.exists(NATIVE_SHIM):
        env["LD_PRELOAD"] = NATIVE_SHIM   # clock seam for native code (NLopt's gettimeofday)
    env["PYTHONWARNINGS"] = "ignore"
    env["PYTHONPATH"] = VERIF + os.pathsep + env.get("PYTHONPATH", "")
    return env


_LIB = None


def import_library(order: str = "opendsm-first"):
    """Import the library from /repo's working tree (the editable install in /venv points there)."""
    global _LIB
    if _LIB is not None:
        return _LIB
    import logging
    import warnings

    warnings.simplefilter("ignore")
    logging.disable(logging.CRITICAL)
    os.environ.setdefault("NUMBA_CACHE_DIR", numba_cache_dir("shared"))
    if REPO not in sys.path:
        sys.path.insert(0, REPO)
    if order == "deps-first":
        import numpy  # noqa: F401
        import pandas  # noqa: F401
        import sklearn  # noqa: F401
        import scipy.optimize  # noqa: F401
    import opendsm  # noqa: F401

    if not os.path.abspath(opendsm.__file__).startswith(os.path.abspath(REPO) + os.sep):
        raise RuntimeError(f"HARNESS-ERROR opendsm imported from {opendsm.__file__}, not from {REPO}")
    import opendsm.eemeter as em

    warnings.simplefilter("ignore")
    logging.disable(logging.CRITICAL)
    _LIB = em
    return em
