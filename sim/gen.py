"""Seeded schedule generation.  generate(seed, mode) is a pure function: the whole event list is fixed
before the first library call, from one PRNG, and never depends on the system's answers.

The generator keeps a *symbolic* picture of what each slot would hold if every op succeeded, only to
choose sensible arguments; an op on an empty or unsuitable slot is still emitted now and then and is
simply executed (the reference machine says what must happen).
"""
from __future__ import annotations

import hashlib
import json
import random

from . import catalogue as C
from . import profiles as P

N_MODEL_SLOTS = 6
N_DATA_SLOTS = 9
MODES = ("C01", "C02", "C03", "C04", "C05")

# rough cost (seconds on one core) used only to keep runs short
FIT_COST = {("daily", "default"): 2.0, ("daily", "legacy"): 0.4, ("daily", "seasonmap"): 2.0,
            ("daily", "dev_nosmooth"): 2.0, ("daily", "dev_alphaall"): 5.0, ("daily", "dev_nogauss"): 9.0,
            ("daily", "dev_cvrmse"): 2.5, ("daily", "legacy_dev"): 0.6, ("daily", "weekmap"): 2.5, ("daily", "shared_dict"): 2.0, "billing": 0.4, "hourly": 1.2,
            "caltrack": 10.0}
PRED_COST = {"daily": 0.25, "billing": 0.25, "hourly": 0.8, "caltrack": 5.0}

PROFILE_WEIGHTS = {
    "daily": [("default", 5), ("legacy", 3), ("seasonmap", 2), ("weekmap", 1), ("shared_dict", 1), ("dev_nosmooth", 1), ("dev_alphaall", 0.5),
              ("dev_nogauss", 0.3), ("dev_cvrmse", 1), ("legacy_dev", 1)],
    "billing": [("default", 5), ("seasonmap", 2), ("dev_cvrmse", 1.5), ("dev_split", 1)],
    "hourly": [("seed1", 4), ("seed0", 1), ("robust", 1.5), ("solar", 1.5), ("solar_rev", 0.8), ("nonsolar", 1.5), ("adaptive", 1), ("adaptive_lowthr", 0.7), ("lowthr", 1.5),
               ("cvonly", 0.8), ("pnonly", 0.8), ("noedge", 1), ("supp", 0.8), ("suppcat", 0.6), ("obj", 1), ("shared_obj", 1), ("randsel", 0.8), ("shared_randsel", 0.8)],
    "caltrack": [("default", 1)],
}
DEFECTS = {"daily": ["short", "long", "gaps", "tmonth", "neg", "noise", "gaps+tmonth", "short+neg"],
           "billing": ["short", "long", "tmonth", "neg", "noise", "short+tmonth"],
           "hourly": ["short", "long", "gaps", "tmonth", "neg", "noise", "short9", "gaps+tmonth", "long+neg"],
           "caltrack": []}


# every (family, profile) is the bootstrap model of one run in each batch: run index i < len(ROUND_ROBIN)
ROUND_ROBIN = [(f, p) for f in ("daily", "billing", "hourly", "caltrack") for p, _w in PROFILE_WEIGHTS[f]]


# C03 anchors: every run of a C03 batch first fits one of these fixed keys, so that each key is fitted about ten
# times per quick batch in processes of all four classes (hash seed, earlier work of the process)
def _b(fam, mid, tz="America/Chicago", **kw):
    return dict({"fam": fam, "role": "baseline", "mid": mid, "tz": tz, "entry": "series"}, **kw)


ANCHORS = [
    ("hourly", "seed1", _b("hourly", 1, src="sample")),
    ("daily", "default", _b("daily", 0, src="sample")),
    ("hourly", "robust", _b("hourly", 2, src="sample")),
    ("daily", "seasonmap", _b("daily", 111, tz="Europe/London")),
    ("billing", "default", _b("billing", 0, src="sample")),
    ("hourly", "seed0", _b("hourly", 1, src="sample")),
    ("daily", "legacy", _b("daily", 102, tz="Australia/Sydney")),
    ("billing", "seasonmap", _b("billing", 105, bill="monthly")),
    ("hourly", "solar", _b("hourly", 131, tz="Europe/London", ghi=True)),
    ("daily", "dev_nosmooth", _b("daily", 123, tz="US/Pacific")),
    ("hourly", "seed1", _b("hourly", 112, norm=1)),
    ("daily", "default", _b("daily", 118, norm=1)),
    # the shipped samples share one weather series: meters that agree on everything but their usage
    ("daily", "default", _b("daily", 1, src="sample")),
    ("daily", "default", _b("daily", 2, src="sample")),
    ("hourly", "seed1", _b("hourly", 2, src="sample")),
]
assert len(ANCHORS) % 2 == 1   # coprime with the four zygote classes: every anchor meets every class


PORTFOLIO = {"hourly": [112, 113, 114, 115], "daily": [118, 119, 120, 121]}
PORTFOLIO_PROFILE = {"hourly": "seed1", "daily": "default"}


def _wchoice(rng, pairs):
    tot = sum(w for _, w in pairs)
    x = rng.random() * tot
    for v, w in pairs:
        x -= w
        if x <= 0:
            return v
    return pairs[-1][0]


class Gen:
    def __init__(self, seed: int, mode: str, tier: str = "quick", backend: str = "objsim"):
        self.rng = random.Random(seed * 8 + MODES.index(mode))
        self.seed = seed
        self.mode = mode
        self.backend = backend
        self.events = []
        self.models = {}   # symbolic: slot -> dict(fam, profile, fitted, base, restored)
        self.data = {}     # symbolic: slot -> recipe
        self.docs = {}     # doc id -> dict(fam, base, profile)
        self.n_docs = 0
        self.cost = 0.0
        self.swarm = {}
        self.n_fit = 0
        self.caltrack_used = False

    # ------------------------------------------------------------------ swarm configuration

    def configure(self):
        r = self.rng
        m = self.mode
        fams = []
        w = {"daily": 0.75, "billing": 0.5, "hourly": 0.7, "caltrack": 0.08}
        if m == "C05":
            w["hourly"] = 0.95
        if m == "C04":
            w["caltrack"] = 0.03
        for f, p in w.items():
            if r.random() < p:
                fams.append(f)
        if not fams or fams == ["caltrack"]:
            fams.append(r.choice(["daily", "hourly", "billing"]))
        fault_free = r.random() < 0.34
        faults = {}
        for k, p in {"crash": 0.7, "abort": 0.5, "thread": 0.5, "blas": 0.4, "clock": 0.5, "rng": 0.6}.items():
            faults[k] = (not fault_free) and r.random() < p
        if m == "C01" and not fault_free:
            faults["crash"] = True
        self.swarm = {
            "families": fams,
            "faults": faults,
            "fault_free": fault_free,
            "budget": r.choice([8, 12, 16, 22]) * (1.0 if m != "C03" else 1.2),
            "max_events": r.choice([12, 20, 30, 40]),
            "defect_rate": {"C04": 0.45}.get(m, 0.12),
            "sample_rate": 0.15,
            "dev_profiles": r.random() < 0.7,
        }
        # a small pool of meters per run, so that objects and keys are shared and repeated
        self.pool = {}
        for f in fams:
            self.pool[f] = []
            for _ in range(r.choice([1, 2, 2, 3])):
                self.pool[f].append(self._new_base(f))

    def _data_fam(self, fam):
        return P.FAMILIES[fam][1]

    def _new_base(self, fam):
        r = self.rng
        dfam = self._data_fam(fam)
        sample = r.random() < (0.5 if (self.mode == "C03" and dfam == "hourly") else self.swarm["sample_rate"])
        rec = {"fam": dfam, "role": "baseline"}
        if sample:
            rec["src"] = "sample"
            rec["mid"] = r.randrange(len(C.SAMPLES[dfam]))
            rec["tz"] = "America/Chicago" if (dfam == "billing" or r.random() < 0.7) else "UTC"
            rec["entry"] = "series"
            return rec
        rec["mid"] = 100 + r.randrange(64)
        rec["tz"] = _wchoice(r, [("America/Chicago", 3), ("US/Pacific", 1), ("Europe/London", 1.5),
                                 ("Australia/Sydney", 1.5), ("Asia/Kolkata", 1), ("UTC", 1)])
        if r.random() < 0.07:
            rec["tz"] = r.choice(C.FIXED_TZS)     # a fixed-offset tzinfo object instead of an IANA name
        if self.mode in ("C01", "C05") and r.random() < 0.22:
            rec["mid"] = 100 + 16 * r.randrange(4) + r.choice([13, 14, 15])   # balance point on a limit / low load
        rec["entry"] = r.choice(["series", "frame"])
        if dfam in ("daily", "hourly") and r.random() < 0.15:
            rec["entry"] = "frame_col"
        if r.random() < self.swarm["defect_rate"] and DEFECTS[dfam]:
            rec["defect"] = r.choice(DEFECTS[dfam])
        if dfam == "hourly":
            rec["ghi"] = r.random() < 0.4
            if r.random() < 0.25:
                rec["extra"] = True
        if dfam == "billing":
            rec["bill"] = r.choice(["monthly", "bimonthly"])
        if self.mode == "C03" and dfam in ("daily", "hourly") and r.random() < 0.3:
            return self._portfolio_base(dfam, r.choice(PORTFOLIO[dfam]))
        if rec["entry"] == "series" and dfam != "hourly" and r.random() < 0.3:
            rec["feed"] = r.choice([1, 2, 3])   # another legal shape of the two series (UTC weather feed, frames, own names)
        peers = [b for b in getattr(self, "pool", {}).get(fam, []) if b.get("src") != "sample" and b["tz"] in C.CONTRAST]
        if peers and r.random() < 0.3:
            # a meter in another zone with the same standard offset as a meter already in the pool and the other
            # daylight-saving behaviour: the two baselines begin and end at the same instants and have the same number of rows
            rec["tz"] = r.choice(C.CONTRAST[r.choice(peers)["tz"]])
        return rec

    @staticmethod
    def _portfolio_base(dfam, mid):
        """A portfolio normalised to unit mean over the same year: different meters that agree on every cheap
        fingerprint (length, first timestamp, mean) - what a cache with a lazy key would confuse.  The portfolio is
        small on purpose, so that its keys recur across the runs of a batch in different orders."""
        return {"fam": dfam, "role": "baseline", "mid": mid, "tz": "America/Chicago", "entry": "series", "norm": 1}

    def _reporting(self, base, span=None, obs=None, foreign_tz=False, tgap=None):
        r = self.rng
        rec = {k: v for k, v in base.items() if k not in ("defect", "role")}
        rec["role"] = "reporting"
        for part in (base.get("defect") or "").split("+"):
            if part in ("short", "long", "short9"):
                rec["defect"] = part  # only moves the start of the reporting period
        dfam = base["fam"]
        spans = ["day", "week", "month", "partial", "full", "baseline"]
        weights = [1.5, 2.5, 2, 2, 3, 1]
        if base.get("src") != "sample" and dfam in ("daily", "hourly") and not base.get("defect"):
            spans, weights = spans + ["long"], weights + [0.6]   # a reporting period longer than the baseline
        if base.get("src") == "sample" and dfam == "billing":
            spans, weights = ["partial", "full", "baseline"], [1, 2, 1]
        if self.mode == "C05":
            weights = ([3, 4, 2, 1.5, 3, 0.5] + [1.0] * (len(spans) - 6)) if len(spans) >= 6 else weights
        rec["span"] = span or _wchoice(r, list(zip(spans, weights)))
        rec["obs"] = obs or _wchoice(r, [("present", 5), ("scaled", 0.5), ("shuffled", 0.5), ("partnan", 1.5),
                                         ("allnan", 1), ("absent", 1.5)])
        rec["tgap"] = 1 if r.random() < 0.2 else 0
        if tgap is not None:
            rec["tgap"] = tgap
        if base.get("src") != "sample":
            rec["entry"] = r.choice(["series", "frame"])
            if dfam in ("daily", "hourly") and r.random() < 0.15:
                rec["entry"] = "frame_col"
        if rec.get("entry") in ("frame", "frame_col") and dfam in ("daily", "hourly") and base.get("src") != "sample" \
                and r.random() < 0.2:
            rec["dup"] = 1    # a feed that re-sends some timestamps (the first record of a timestamp counts)
        rec.pop("res", None)
        if dfam == "caltrack" and rec.get("entry") == "frame" and base.get("src") != "sample" and r.random() < 0.25:
            rec["res"] = 30   # half-hourly readings and weather
        rec.pop("feed", None)
        if rec.get("entry") == "series" and dfam != "hourly" and base.get("src") != "sample" and r.random() < 0.3:
            rec["feed"] = r.choice([1, 2, 3])
        if foreign_tz:
            others = [t for t in C.TZS if t != base["tz"]]
            if r.random() < 0.5:
                # another zone with the same UTC offset (always or in winter); a meter that itself sits in a look-alike
                # zone gets the zones that list it
                others = C.LOOKALIKE.get(base["tz"]) or [k for k, v in C.LOOKALIKE.items() if base["tz"] in v] or others
            rec["tz"] = r.choice(others)
        if dfam == "hourly" and r.random() < 0.1:
            rec["ghi"] = not base.get("ghi", False)  # feature mismatch on purpose
        return rec

    def _plain_reporting(self, base, span):
        rec = self._reporting(base, span=span, obs="present", tgap=0)
        rec.pop("dup", None)
        rec.pop("feed", None)
        if base["fam"] == "hourly":
            rec["ghi"] = bool(base.get("ghi"))
        rec["tz"] = base["tz"]
        return rec

    def _profile(self, fam):
        pairs = PROFILE_WEIGHTS[fam]
        if not self.swarm["dev_profiles"]:
            pairs = [(p, w) for p, w in pairs if not (p.startswith("dev_") or p == "legacy_dev")] or pairs
        return _wchoice(self.rng, pairs)

    # ------------------------------------------------------------------ emit helpers

    def emit(self, kind, **args):
        ev = {"seq": len(self.events), "kind": kind, "args": args}
        self.events.append(ev)
        return ev

    def _free_data_slot(self):
        r = self.rng
        free = [i for i in range(N_DATA_SLOTS) if i not in self.data]
        return free[0] if free else r.randrange(N_DATA_SLOTS)

    def _free_model_slot(self):
        r = self.rng
        free = [i for i in range(N_MODEL_SLOTS) if i not in self.models]
        return free[0] if free else r.randrange(N_MODEL_SLOTS)

    def make_data(self, recipe, slot=None):
        slot = self._free_data_slot() if slot is None else slot
        self.emit("MAKE_DATA", d=slot, recipe=recipe)
        self.data[slot] = recipe
        self.cost += 0.25
        return slot

    def _abort_mod(self, p):
        r = self.rng
        if self.swarm["faults"]["abort"] and r.random() < p:
            # early in the call, where guards and feature preparation run: Beta(1,3)
            return {"q": round(r.betavariate(1, 3), 4), "exc": r.choice(["MemoryError", "KeyboardInterrupt"])}
        return None

    def fit(self, fam, base_slot, profile=None, ignore=None, mslot=None, reuse=False, allow_abort=True):
        r = self.rng
        profile = profile or self._profile(fam)
        rec = self.data.get(base_slot, {})
        if ignore is None:
            if rec.get("defect"):
                ignore = r.random() < 0.6
            else:
                ignore = r.random() < 0.25
        mslot = self._free_model_slot() if mslot is None else mslot
        args = dict(m=mslot, fam=fam, profile=profile, d=base_slot, ignore=ignore)
        if reuse:
            args["reuse"] = True
        if r.random() < 0.25:
            args["pos"] = True
        ab = self._abort_mod(0.06 if self.mode != "C02" else 0.12) if allow_abort else None
        if ab:
            args["abort"] = ab
        self.emit("FIT", **args)
        c = FIT_COST.get((fam, profile), FIT_COST.get(fam, 1.0))
        self.cost += c * (2 if ab else 1)
        self.n_fit += 1
        if fam == "caltrack":
            self.caltrack_used = True
        if not ab:
            self.models[mslot] = {"fam": fam, "profile": profile, "fitted": True, "base": rec, "ignore": ignore}
        else:
            self.models.pop(mslot, None)
        return mslot

    def predict(self, mslot, dslot, ignore=None, agg=None):
        r = self.rng
        m = self.models.get(mslot, {})
        if ignore is None:
            ignore = r.random() < (0.75 if (m.get("base", {}).get("defect") or m.get("profile") in (
                "dev_cvrmse", "lowthr")) else 0.35)
        args = dict(m=mslot, d=dslot, ignore=ignore)
        fam = m.get("fam", "daily")
        if fam == "billing" and r.random() < 0.3:
            args["agg"] = r.choice(["monthly", "bimonthly", "none"])
        if r.random() < 0.25:
            args["pos"] = True
        ab = self._abort_mod(0.10 if self.mode != "C02" else 0.2)
        if ab:
            args["abort"] = ab
        self.emit("PREDICT", **args)
        self.cost += PRED_COST.get(fam, 0.3) * (2 if ab else 1)

    def store(self, mslot, form=None):
        r = self.rng
        m = self.models.get(mslot)
        doc = f"doc{self.n_docs}"
        self.n_docs += 1
        drawn = "json" if self.backend == "fleetsim" else _wchoice(r, [("json", 3), ("dict", 1)])
        form = form or drawn
        self.emit("STORE", m=mslot, doc=doc, form=form)
        if m and m.get("fitted"):
            self.docs[doc] = dict(m)
        self.cost += 0.05
        return doc

    def load(self, doc, mslot=None, form=None):
        r = self.rng
        mslot = self._free_model_slot() if mslot is None else mslot
        drawn = "json" if self.backend == "fleetsim" else _wchoice(
            r, [("json", 4), ("dict", 2), ("dict_twice", 1), ("json_dict_json", 1), ("json_sorted", 1.5),
                ("dict_sorted", 0.7)])
        form = form or drawn
        self.emit("LOAD", doc=doc, m=mslot, form=form)
        if doc in self.docs:
            m = dict(self.docs[doc])
            m["restored"] = True
            self.models[mslot] = m
        self.cost += 0.1
        return mslot

    def crash(self):
        self.emit("CRASH_RESTART")
        self.models.clear()
        self.data.clear()

    def fault(self):
        r = self.rng
        f = self.swarm["faults"]
        kinds = [k for k in ("thread", "blas", "clock", "rng") if f[k]]
        if not kinds:
            return
        k = r.choice(kinds)
        if k == "thread":
            self.emit("THREAD", on=r.random() < 0.7)
        elif k == "blas":
            self.emit("BLAS", n=r.choice([1, 2, 16, None]))
        elif k == "clock":
            how = r.choice(["skew", "jump", "jump", "stall", "native_jump", "native_jump", "date", "date"])
            x = {"skew": r.choice([0.01, 0.5, 3.0, 100.0]), "jump": r.choice([-3600.0, -5.0, 60.0, 86400.0, 86400.0 * 200]),
                 "stall": r.choice([5, 50]), "native_jump": r.choice([6.0, 30.0, 3600.0, -30.0]),
                 "date": 86400.0 * r.choice([1, -1, 35, 400, 3660, -3650, -12000])}[how]
            n = r.choice([1, 3]) if how != "native_jump" else r.choice([2, 10, 60, 400])
            self.emit("CLOCK", how=how, x=x, n=n)
        else:
            how = r.choice(["reseed", "draw"])
            self.emit("RNG", how=how, x=r.randrange(1, 10_000))

    def prelude(self, m0, base0):
        """The core path of the property, once per (family, profile) in every batch."""
        r = self.rng
        mode = self.mode
        idx_r = (self.seed % 1_000_003) + (self.seed // 1_000_003)
        ds = self._data_for(m0)
        long_span = "partial" if (base0.get("src") == "sample" and base0["fam"] == "billing") else r.choice(["month", "full"])
        if mode == "C01":
            doc_pre = self.store(m0)     # written before the object has predicted anything
            self.predict(m0, ds[0], ignore=True)
            if self.models[m0]["fam"] in ("daily", "billing"):
                self.emit("PREDICT_GRID", m=m0, d=N_DATA_SLOTS - 1)
            doc = self.store(m0)
            # every crash point of one to_json and one from_dict of this model
            self.emit("SERIAL_ABORT_SWEEP", m=m0, exc=r.choice(["MemoryError", "KeyboardInterrupt"]))
            self.cost += 1.0
            # another model of the family is fitted while the original lives on; the stored model, read back, must
            # still predict like the original
            mfam = self.models[m0]["fam"]
            if FIT_COST.get((mfam, self.models[m0]["profile"]), FIT_COST.get(mfam, 1)) <= 2.5 or mfam == "caltrack":
                prof_o = self.models[m0]["profile"] if r.random() < 0.5 else P.sibling(mfam, self.models[m0]["profile"])
                ob = self._like_base(mfam, prof_o, base0)
                dbo = self.make_data(ob)
                self.fit(mfam, dbo, profile=prof_o, ignore=True, allow_abort=False)
                mlo = self.load(doc)
                self.predict(mlo, ds[0], ignore=True)
                self.predict(m0, ds[0], ignore=True)
            if self.swarm["faults"]["crash"]:
                self.crash()
            # a restored object meets a short window first and a longer one afterwards, twice over
            m1 = self.load(doc)
            d_s = self.make_data(self._reporting(base0, obs="present", span="day" if long_span != "partial" else "partial", tgap=0))
            d_l = self.make_data(self._reporting(base0, obs="present", span=long_span))
            self.predict(m1, d_s, ignore=True)
            self.predict(m1, d_l, ignore=True)
            if base0.get("src") != "sample":
                # the same period under another weather scenario (same timestamps, same row count, other temperatures)
                d_w = self.make_data(dict(self.data[d_l], wx=1))
                self.predict(m1, d_w, ignore=True)
            doc2 = self.store(m1)
            # the second generation comes back from a store that normalises JSON (member order, whitespace)
            m2 = self.load(doc2, form="json_sorted")
            self.predict(m2, d_l, ignore=True)
            if self.models[m2]["fam"] in ("daily", "billing"):
                # far outside the fitted range and exactly on the balance points, restored and second generation
                self.emit("PREDICT_GRID", m=m1, d=N_DATA_SLOTS - 1)
                self.emit("PREDICT_GRID", m=m2, d=N_DATA_SLOTS - 1)
                self.cost += 1.0
            self.emit("INSPECT", m=m2)
            # the document written before any prediction: read back, used, written again — still that document
            mp = self.load(doc_pre, mslot=m1)
            self.predict(mp, d_l, ignore=True)
            self.store(mp)
            # the unchanged document is read twice: the first object read back is fitted again on another meter in
            # between (what a caller may do with an object it owns), the second read-back must still be the stored model
            mm = self.models[m2]
            if mm["fam"] != "caltrack" and FIT_COST.get((mm["fam"], mm["profile"]), FIT_COST.get(mm["fam"], 1)) <= 2.5:
                m3 = self.load(doc2, mslot=m1, form="json")
                db = self.make_data(self._like_base(mm["fam"], mm["profile"], base0))
                self.fit(mm["fam"], db, profile=mm["profile"], ignore=True, mslot=m3, reuse=True, allow_abort=False)
                m4 = self.load(doc2, mslot=m2, form="json")
                self.predict(m4, d_l, ignore=True)
                self.store(m4)
            # a second stored model of the family (another meter) restored next to this one; both are used in turn
            self._second_restored(m2, base0)
        elif mode == "C02":
            # spans of growing length over the same weeks: one day, the month around it, then whatever was drawn
            d1 = self.make_data(self._reporting(base0, span="day", obs="present", tgap=0))
            dm = self.make_data(self._reporting(base0, span="month" if base0.get("src") != "sample" or base0[
                "fam"] != "billing" else "partial", obs="present"))
            self.predict(m0, d1, ignore=True)
            self.predict(m0, dm, ignore=True)
            self.predict(m0, ds[0], ignore=True)
            if base0.get("src") != "sample":
                # the same period under another weather scenario (same timestamps, same row count, other temperatures)
                dw = self.make_data(dict(self.data[dm], wx=1))
                self.predict(m0, dw, ignore=True)
                self.predict(m0, dm, ignore=True)
            mfam = self.models[m0]["fam"]
            if FIT_COST.get((mfam, self.models[m0]["profile"]), FIT_COST.get(mfam, 1)) <= 2.5 or mfam == "caltrack":
                # a second model of the family (another meter, look-alike zone where there is one) is fitted and used
                # while the first lives on
                prof_o = self.models[m0]["profile"] if r.random() < 0.5 else P.sibling(mfam, self.models[m0]["profile"])
                ob = self._like_base(mfam, prof_o, base0)
                if ob.get("src") != "sample" and base0.get("tz") in C.CONTRAST and r.random() < 0.75:
                    ob["tz"] = r.choice(C.CONTRAST[base0["tz"]])   # same standard offset, other daylight-saving behaviour
                    if r.random() < 0.6:
                        # a longer baseline: the two baselines differ in shape, the two reporting years below do not
                        ob["defect"] = "long"
                elif ob.get("src") != "sample" and base0.get("tz") in C.LOOKALIKE and r.random() < 0.5:
                    ob["tz"] = r.choice(C.LOOKALIKE[base0["tz"]])
                dbo = self.make_data(ob)
                mo = self.fit(mfam, dbo, profile=prof_o, ignore=True, allow_abort=False)
                self.predict(mo, dbo, ignore=True)
                self.predict(m0, ds[0], ignore=True)
                if ob.get("src") != "sample" and base0.get("src") != "sample" and mfam != "caltrack":
                    # both meters' full reporting year (gapless, same shape), first the one, then the other: in look-alike
                    # zones the two frames begin and end at the same instants and have the same number of rows
                    d_f0 = self.make_data(self._plain_reporting(base0, "full"))
                    d_fo = self.make_data(self._plain_reporting({k: v for k, v in ob.items() if k != "defect"}, "full"))
                    self.predict(m0, d_f0, ignore=True)
                    self.predict(mo, d_fo, ignore=True)
                    self.predict(m0, d_f0, ignore=True)
                bs0 = self._data_for(m0, "baseline")
                if bs0:
                    self.predict(m0, bs0[0], ignore=True)
            if self.models[m0]["fam"] != "caltrack":
                # every crash point of one short predict
                self.emit("ABORT_SWEEP", m=m0, d=d1, exc=r.choice(["MemoryError", "KeyboardInterrupt"]))
                self.cost += 1.5
            self.emit("SCRIBBLE_PRED", m=m0)
            self.emit("SCRIBBLE_DATA", d=ds[0])
            self.predict(m0, ds[0], ignore=True)
            # the very data object the model was fitted on: predict, let the caller edit the result, predict again
            bs = self._data_for(m0, "baseline")
            if bs:
                self.predict(m0, bs[0], ignore=True)
                self.emit("SCRIBBLE_PRED", m=m0)
                self.predict(m0, bs[0], ignore=True)
            mm = self.models[m0]
            if bs and FIT_COST.get((mm["fam"], mm["profile"]), FIT_COST.get(mm["fam"], 1)) <= 1.3:
                # sampled crash points of a fit on the shared baseline object: the data object must stay untouched
                self.emit("FIT_ABORT_SWEEP", d=bs[0], fam=mm["fam"], profile=mm["profile"],
                          exc=r.choice(["MemoryError", "KeyboardInterrupt"]), points=10 if mm["fam"] == "hourly" else 14)
                self.cost += 6
            doc = self.store(m0)
            # the same history on a restored object: short span first, then the longer ones
            m1 = self.load(doc)
            # every crash point of the serialisation calls, on the restored object
            self.emit("SERIAL_ABORT_SWEEP", m=m1, exc=r.choice(["MemoryError", "KeyboardInterrupt"]))
            self.cost += 1.0
            self.predict(m1, d1, ignore=True)
            self.predict(m1, dm, ignore=True)
            self.predict(m1, ds[0], ignore=True)
            mm = self.models[m1]
            if mm["fam"] != "caltrack" and FIT_COST.get((mm["fam"], mm["profile"]), FIT_COST.get(mm["fam"], 1)) <= 2.5:
                # one document held as a dict by the caller, read back twice; one of the two objects is fitted again on
                # another meter: the other object, and the caller's document, must not notice
                docd = self.store(m1, form="dict")
                ma = self.load(docd, form="dict")
                mb = self.load(docd, form="dict")
                dbl = self.make_data(self._like_base(mm["fam"], mm["profile"], base0))
                self.fit(mm["fam"], dbl, profile=mm["profile"], ignore=True, mslot=ma, reuse=True, allow_abort=False)
                self.emit("INSPECT", m=mb)
                self.predict(mb, ds[0], ignore=True)
            self._second_restored(m1, base0)
        elif mode == "C03":
            self.store(m0)
            self.predict(m0, ds[0], ignore=True)
            self.fault()
            # "today" is another day when the same key is built and fitted again: before the data begin, in the middle of
            # the baseline year, the next day, years later
            self.emit("CLOCK", how="date", x=86400.0 * [-12000, 400, -3650, 1, 3660, -3300][idx_r % 6], n=1)
            m = self.models[m0]
            if m["fam"] != "caltrack":
                d = self.make_data(base0)
                m1 = self.fit(m["fam"], d, profile=m["profile"], ignore=True)
                self.predict(m1, ds[0], ignore=True)
                bs = self._data_for(m0, "baseline")
                if bs and FIT_COST.get((m["fam"], m["profile"]), FIT_COST.get(m["fam"], 1)) <= 2.5:
                    # the baseline object m0 was fitted on serves a model of a sibling profile (other season and weekday
                    # maps / other scaler), then a fresh model of the key's own profile: same key as m0, same document
                    sib = P.sibling(m["fam"], m["profile"])
                    if not P.needs_ghi(m["fam"], sib) or base0.get("ghi"):
                        self.fit(m["fam"], bs[0], profile=sib, ignore=True, allow_abort=False)
                    self.fit(m["fam"], bs[0], profile=m["profile"], ignore=True, allow_abort=False)
                if FIT_COST.get((m["fam"], m["profile"]), FIT_COST.get(m["fam"], 1)) <= 2.5:
                    # the same key once more, by an object whose previous fit (another meter) was interrupted
                    mx = self._fit_after_failed(m["fam"], m["profile"], self._other_base(m["fam"], m["profile"], base0), base0)
                    self.predict(mx, ds[0], ignore=True)
            self._refit_flipped(m0, base0, also_fresh=True)
        elif mode == "C04":
            bs = self._data_for(m0, "baseline")
            if bs and self.models[m0]["fam"] != "caltrack":
                mm = self.models[m0]
                cheap = "legacy" if mm["fam"] == "daily" else mm["profile"]
                self.fit(mm["fam"], bs[0], profile=cheap, ignore=False, allow_abort=False)
            self.predict(m0, ds[0], ignore=False)
            doc = self.store(m0)
            m1 = self.load(doc)
            self.predict(m1, ds[0], ignore=False)
            self.predict(m1, ds[0], ignore=True)
            # second generation: what the gate knows must survive being stored again
            doc2 = self.store(m1)
            m2 = self.load(doc2, form="json")
            self.predict(m2, ds[0], ignore=False)
            # the other guards on a restored object: foreign timezone (look-alike or not), foreign data family
            if base0.get("src") != "sample":
                dz = self.make_data(self._reporting(base0, foreign_tz=True, span=r.choice(["week", "month"])))
                self.predict(m2, dz, ignore=True)
                self.predict(m0, dz, ignore=True)
            ofam = r.choice([f for f in ("daily", "billing", "hourly") if f != self._data_fam(self.models[m0]["fam"])])
            dx = self.make_data(self._reporting({k: v for k, v in self._new_base(ofam).items() if k != "defect"},
                                                span=r.choice(["week", "month"])))
            self.predict(m2, dx, ignore=True)
            mm = self.models[m2]
            if mm["fam"] != "caltrack" and FIT_COST.get((mm["fam"], mm["profile"]), FIT_COST.get(mm["fam"], 1)) <= 2.5:
                # a restored object is a model object like any other: fitting it on well-formed data returns a model
                ob = self._like_base(mm["fam"], mm["profile"], base0)
                db = self.make_data(ob)
                self.fit(mm["fam"], db, profile=mm["profile"], ignore=True, mslot=m2, reuse=True, allow_abort=False)
                dr = self.make_data(self._reporting(ob, obs="present", span=r.choice(["week", "month"])
                                                    if not (ob.get("src") == "sample" and ob["fam"] == "billing") else "partial"))
                self.predict(m2, dr, ignore=True)
                # the re-fitted object is stored and read back: the gate state of the copy is that of the live object
                # (emitted without drawing from the PRNG, so that nothing else in the schedule moves)
                docr = f"doc{self.n_docs}"
                self.n_docs += 1
                self.emit("STORE", m=m2, doc=docr, form="json")
                self.docs[docr] = dict(self.models[m2])
                self.emit("LOAD", doc=docr, m=m1, form="json")
                self.models[m1] = dict(self.models[m2], restored=True)
                self.emit("PREDICT", m=m1, d=dr, ignore=False)
                self.emit("PREDICT", m=m1, d=dr, ignore=True)
                # the unchanged document read once more: what the gate knows must be what the document says
                m5 = self.load(doc2, mslot=m1, form="json")
                self.predict(m5, ds[0], ignore=False)
            self._refused_refits(m0, base0, dx)
            self._refit_flipped(m0, base0, also_fresh=False)
        elif mode == "C05":
            rec = self._reporting(base0, obs="present")
            rec["tgap"] = 0
            self.emit("PREDICT_PAIR", m=m0, recipe=rec, alter=r.choice(["scaled", "shuffled", "partnan", "allnan", "absent"]))
            d1 = self.make_data(self._reporting(base0, span=r.choice(["day", "week"])))
            self.predict(m0, d1, ignore=True)
            rec2 = self._reporting(base0, obs="present", span="full" if long_span != "partial" else "partial")
            rec2["tgap"] = 1
            self.emit("PREDICT_PAIR", m=m0, recipe=rec2, alter=r.choice(["scaled", "shuffled", "partnan", "allnan", "absent"]))
            rec3 = dict(rec2, obs="partnan", tgap=0)
            self.emit("PREDICT_PAIR", m=m0, recipe=rec3, alter="partnan2", seq=True)
            self.emit("PREDICT_PAIR", m=m0, recipe=dict(rec2, tgap=0), alter="monthnan")
            if base0["fam"] == "caltrack" and base0.get("src") != "sample":
                # half-hourly readings and weather with scattered missing reads
                self.emit("PREDICT_PAIR", m=m0, recipe=dict(rec2, tgap=0, entry="frame", res=30, span="month"), alter="partnan")
                self.cost += 2 * PRED_COST["caltrack"]
            if base0["fam"] != "hourly" and base0.get("src") != "sample":
                # the call form that omits the meter series, against the form that passes it, with the weather feed in UTC
                rec4 = dict(rec2, tgap=0, entry="series", feed=r.choice([1, 2]))
                rec4.pop("dup", None)
                self.emit("PREDICT_PAIR", m=m0, recipe=rec4, alter="absent")
                self.cost += 2 * PRED_COST.get(self.models[m0]["fam"], 0.3)
            # the object is stored AFTER its short prediction and the pair is asked of the restored copy
            doc = self.store(m0)
            m1 = self.load(doc)
            self.emit("PREDICT_PAIR", m=m1, recipe=dict(rec2, tgap=0), alter=r.choice(["shuffled", "allnan", "absent", "scaled"]))
            self.cost += 2 * PRED_COST.get(self.models[m0]["fam"], 0.3)
            if self.models[m0]["fam"] == "billing":
                self.emit("PREDICT_PAIR", m=m0, recipe=dict(rec2, tgap=0), alter="scaled", agg=r.choice(["monthly", "bimonthly"]))
                # aggregated, with no usage at all: either no aggregated prediction is produced, or the same one
                self.emit("PREDICT_PAIR", m=m0, recipe=dict(rec2, tgap=0), alter=r.choice(["allnan", "absent"]),
                          agg=r.choice(["monthly", "bimonthly"]))
            self.cost += 4 * PRED_COST.get(self.models[m0]["fam"], 0.3)

    def _fit_after_failed(self, fam, profile, base_fail, base_then, ignore=True):
        """A fit() that is interrupted somewhere in the middle, then the same object fitted on `base_then`: the result
        must be the document a fresh object gives for that key (a batch job that catches the exception and goes on)."""
        r = self.rng
        d1 = self.make_data(base_fail)
        ms = self._free_model_slot()
        self.emit("FIT", m=ms, fam=fam, profile=profile, d=d1, ignore=True,
                  abort={"q": r.choice([0.02, 0.1, 0.3, 0.6, 0.9]), "exc": r.choice(["MemoryError", "KeyboardInterrupt"])})
        c = FIT_COST.get((fam, profile), FIT_COST.get(fam, 1.0))
        self.cost += 2 * c
        self.models.pop(ms, None)
        d2 = self.make_data(base_then)
        self.fit(fam, d2, profile=profile, ignore=ignore, mslot=ms, reuse=True, allow_abort=False)
        return ms

    def _like_base(self, fam, profile, base0):
        """Another meter with the same columns as base0 (a restored model's features are those of its document)."""
        other = self._other_base(fam, profile, base0)
        if self._data_fam(fam) == "hourly":
            for k in ("ghi", "extra"):
                if bool(other.get(k)) != bool(base0.get(k)):
                    other[k] = bool(base0.get(k))
                    if other.get("src") == "sample":
                        other.pop("src")
                        other["mid"] += 100
        return other

    def _other_base(self, fam, profile, not_like=None):
        other = self._new_base(fam)
        tries = 0
        while not_like and other.get("mid") == not_like.get("mid") and other.get("src") == not_like.get("src") and tries < 5:
            other = self._new_base(fam)
            tries += 1
        other = {k: v for k, v in other.items() if k != "defect"}
        if P.needs_ghi(fam, profile) and not other.get("ghi"):
            other["ghi"] = True
            if other.get("src") == "sample":
                other.pop("src")
                other["mid"] += 100
        if P.needs_extra(fam, profile) and not other.get("extra"):
            other["extra"] = True
            if other.get("src") == "sample":
                other.pop("src")
                other["mid"] += 100
        return other

    def _refused_refits(self, m0, base0, d_foreign):
        """The fitted object is handed to fit() again and the call is refused by a guard: foreign data type,
        disqualified baseline without the override, a baseline lacking a feature the profile names.  Nothing was
        fitted, so the object is still the model it was: the gate must decide as before, live and after storage."""
        r = self.rng
        m = self.models.get(m0)
        if not m or m["fam"] == "caltrack":
            return
        fam, profile = m["fam"], m["profile"]
        keep = dict(m)
        ds = self._data_for(m0)
        self.fit(fam, d_foreign, profile=profile, ignore=True, mslot=m0, reuse=True, allow_abort=False)
        self.models[m0] = dict(keep)
        # a baseline of the other sufficiency class than the model's own, refused for want of the override
        other = {k: v for k, v in base0.items() if k not in ("defect", "src")}
        if base0.get("src") == "sample":
            other["mid"] = 100 + base0["mid"]
        other["defect"] = r.choice(["short", "long"] if fam == "billing" else ["short", "gaps", "long"])
        d_dq = self.make_data(other)
        self.fit(fam, d_dq, profile=profile, ignore=False, mslot=m0, reuse=True, allow_abort=False)
        self.models[m0] = dict(keep)
        if P.needs_ghi(fam, profile):
            nog = dict(other, ghi=False)
            if not base0.get("defect"):
                nog["defect"] = "short"
            else:
                nog.pop("defect", None)
            d_ng = self.make_data(nog)
            self.fit(fam, d_ng, profile=profile, ignore=True, mslot=m0, reuse=True, allow_abort=False)
            self.models[m0] = dict(keep)
        if ds:
            self.predict(m0, ds[0], ignore=False)
            self.predict(m0, ds[0], ignore=True)
            self.predict(m0, ds[0], ignore=False)    # the override of the previous call must not stick
            doc = self.store(m0)
            mr = self.load(doc)
            self.predict(mr, ds[0], ignore=True)
            self.predict(mr, ds[0], ignore=False)
            if FIT_COST.get((fam, profile), FIT_COST.get(fam, 1.0)) <= 2.5:
                # a re-fit on a clean baseline that is interrupted half-way: whatever the object is now, a model that
                # was disqualified must not start predicting without the override
                clean = self._like_base(fam, profile, base0)
                dcl = self.make_data(clean)
                self.emit("FIT", m=mr, fam=fam, profile=profile, d=dcl, ignore=True, reuse=True,
                          abort={"q": r.choice([0.05, 0.3, 0.6, 0.9]), "exc": r.choice(["MemoryError", "KeyboardInterrupt"])})
                self.cost += 2 * FIT_COST.get((fam, profile), FIT_COST.get(fam, 1.0))
                self.predict(mr, ds[0], ignore=False)
                self.models.pop(mr, None)

    def _refit_flipped(self, m0, base0, also_fresh):
        """The same HourlyModel object fitted again on a baseline of the other GHI-ness; optionally a fresh model on the
        same data right after it (same key: the two documents must agree)."""
        m = self.models.get(m0)
        if not m or m["fam"] != "hourly":
            return
        flip = {k: v for k, v in base0.items() if k not in ("defect", "src")}
        flip["ghi"] = not bool(base0.get("ghi"))
        if base0.get("src") == "sample":
            flip["mid"] = 100 + base0["mid"]
        self.pool["hourly"].append(flip)
        d = self.make_data(flip)
        self.fit("hourly", d, profile=m["profile"], ignore=True, mslot=m0, reuse=True, allow_abort=False)
        if also_fresh:
            d2 = self.make_data(flip)
            self.fit("hourly", d2, profile=m["profile"], ignore=True, allow_abort=False)

    def _second_restored(self, m1, base0):
        """A second restored model of ANOTHER meter of the same family alive next to the first one; both predict."""
        m = self.models.get(m1)
        if not m or m["fam"] == "caltrack" or FIT_COST.get((m["fam"], m["profile"]), FIT_COST.get(m["fam"], 1)) > 4:
            return
        fam = m["fam"]
        other = self._new_base(fam)
        tries = 0
        while (other.get("mid") == base0.get("mid") and other.get("src") == base0.get("src")) and tries < 5:
            other = self._new_base(fam)
            tries += 1
        other = {k: v for k, v in other.items() if k != "defect"}
        if P.needs_ghi(fam, m["profile"]):
            other["ghi"] = True
            if other.get("src") == "sample":
                other.pop("src")
                other["mid"] += 100
        self.pool[fam].append(other)
        db = self.make_data(other)
        mb = self.fit(fam, db, profile=m["profile"], ignore=True, allow_abort=False)
        docb = self.store(mb)
        mb1 = self.load(docb, mslot=mb)
        rb = self.make_data(self._reporting(other, obs="present", span="month" if not (
            other.get("src") == "sample" and other["fam"] == "billing") else "partial"))
        self.predict(mb1, rb, ignore=True)
        ds = self._data_for(m1)
        if ds:
            self.predict(m1, ds[0], ignore=True)
        self.predict(mb1, rb, ignore=True)

    # ------------------------------------------------------------------ picking

    def _models_of(self, pred=lambda m: True):
        return [s for s, m in sorted(self.models.items()) if pred(m)]

    def _data_for(self, mslot, role="reporting"):
        m = self.models.get(mslot, {})
        dfam = self._data_fam(m.get("fam", "daily"))
        base = m.get("base", {})
        out = []
        for s, rec in sorted(self.data.items()):
            if rec["fam"] == dfam and rec["role"] == role and rec.get("mid") == base.get("mid") \
                    and rec.get("src") == base.get("src"):
                out.append(s)
        return out

    # ------------------------------------------------------------------ main

    def run(self):
        r = self.rng
        self.configure()
        sw = self.swarm
        mode = self.mode
        idx = self.seed % 1_000_003
        if mode == "C03":
            fam_a, prof_a, base_a = ANCHORS[idx % len(ANCHORS)]
            d_a = self.make_data(dict(base_a), slot=N_DATA_SLOTS - 1)
            m_a = self.fit(fam_a, d_a, profile=prof_a, ignore=True, mslot=N_MODEL_SLOTS - 1, allow_abort=False)
            rep_a = {k: v for k, v in base_a.items() if k != "role"}
            rep_a.update(role="reporting", span="partial" if base_a.get("src") == "sample" else "month", obs="present", tgap=0)
            r_a = self.make_data(rep_a, slot=N_DATA_SLOTS - 2)
            self.predict(m_a, r_a, ignore=True)
            self.events[-1]["args"].pop("abort", None)
            self.n_fit -= 1
        # bootstrap: one fitted model with one reporting set
        forced = None
        if idx < len(ROUND_ROBIN):
            forced = ROUND_ROBIN[idx]
            fam0 = forced[0]
            if fam0 not in sw["families"]:
                sw["families"].append(fam0)
                self.pool[fam0] = [self._new_base(fam0) for _ in range(2)]
        else:
            fam0 = r.choice(sw["families"])
            if fam0 == "caltrack" and len(sw["families"]) > 1 and r.random() < 0.5:
                fam0 = r.choice([f for f in sw["families"] if f != "caltrack"])
        base0 = r.choice(self.pool[fam0])
        if forced:
            if P.needs_ghi(fam0, forced[1]):
                base0 = dict(base0, ghi=True)
                base0.pop("src", None)
                if base0["mid"] < 100:
                    base0["mid"] += 100
            if P.needs_extra(fam0, forced[1]):
                base0 = dict(base0, extra=True)
                if base0.get("src") == "sample":
                    base0.pop("src")
                    base0["mid"] += 100
            if P.wants_weekend_regime(fam0, forced[1]):
                base0 = dict(base0)
                base0.pop("src", None)
                base0["mid"] = 104 + (base0["mid"] % 8) + 16 * (idx % 3)   # (mid // 8) % 2 == 1: weekend regime
            if mode != "C04":
                base0 = {k: v for k, v in base0.items() if k != "defect"}
            elif base0.get("src") != "sample" and fam0 != "caltrack":
                # the gate's two inputs, in rotation: a poorly fitting but sufficient baseline, a sufficiency defect, neither
                base0 = {k: v for k, v in base0.items() if k != "defect"}
                dfam0 = self._data_fam(fam0)
                rot = (idx + self.seed // 1_000_003) % 3
                if rot == 0:
                    base0["defect"] = "noise"
                elif rot == 1:
                    base0["defect"] = r.choice([d for d in DEFECTS[dfam0] if d != "noise"])
            self.pool[fam0].append(base0)
        b = self.make_data(base0)
        m0 = self.fit(fam0, b, profile=forced[1] if forced else None, ignore=True if forced else None,
                      allow_abort=not forced)
        self.make_data(self._reporting(base0))
        if forced:
            self.prelude(m0, base0)
        weights = {
            "make_reporting": 3, "make_baseline": 1.2, "fit": 1.6, "fit_shared": 0.5, "refit_key": 0.4, "refit_other": 0.5,
            "refit_after_failed": 0.0, "portfolio": 0.0, "predict": 7,
            "predict_odd": 0.6, "pair": 1.0, "store": 1.6, "load": 1.6, "store_load_predict": 0.8, "crash": 0.5,
            "scribble_data": 0.5, "scribble_pred": 0.5, "abort_sweep": 0.15, "serial_sweep": 0.12, "grid": 0.3, "inspect": 0.4, "new_model": 0.25, "fault": 1.6,
        }
        mult = {
            "C01": {"grid": 4, "serial_sweep": 4, "store": 2.5, "load": 2.5, "store_load_predict": 4, "crash": 2.5, "fit": 1.3, "refit_other": 2},
            "C02": {"predict": 1.4, "refit_other": 2, "abort_sweep": 5, "serial_sweep": 3, "scribble_data": 2, "scribble_pred": 2, "fit_shared": 3, "inspect": 2,
                    "make_reporting": 1.3},
            "C03": {"refit_key": 9, "refit_other": 2, "portfolio": 1, "fit": 1.5, "fault": 2.5, "crash": 1.5, "predict": 0.6},
            "C04": {"new_model": 4, "predict_odd": 5, "make_baseline": 2.5, "fit": 2, "store_load_predict": 2,
                    "fit_shared": 2, "refit_other": 4},
            "C05": {"pair": 9, "predict": 1.2, "make_reporting": 1.4, "store_load_predict": 1.5},
        }[mode]
        for k, v in mult.items():
            weights[k] *= v
        if mode == "C03":
            weights["portfolio"] = 2.0
            weights["refit_after_failed"] = 1.5 if sw["faults"]["abort"] else 0.0
        if not sw["faults"]["crash"]:
            weights["crash"] = 0
        if not any(sw["faults"][k] for k in ("thread", "blas", "clock", "rng")):
            weights["fault"] = 0
        restarts = 0
        spins = 0
        while self.cost < sw["budget"] and len(self.events) < sw["max_events"] and spins < 600:
            spins += 1
            op = _wchoice(r, sorted(weights.items()))
            fitted = self._models_of(lambda m: m.get("fitted"))
            if op == "make_reporting":
                bases = [m["base"] for m in self.models.values() if m.get("base")]
                if not bases:
                    continue
                base = r.choice(bases)
                self.make_data(self._reporting(base))
            elif op == "make_baseline":
                fam = r.choice(sw["families"])
                if r.random() < 0.5:
                    self.pool[fam].append(self._new_base(fam))
                self.make_data(r.choice(self.pool[fam]))
            elif op == "fit":
                fam = r.choice(sw["families"])
                if fam == "caltrack" and self.caltrack_used:
                    continue
                if self.n_fit >= 5:
                    continue
                dfam = self._data_fam(fam)
                cands = [s for s, rec in sorted(self.data.items()) if rec["fam"] == dfam and rec["role"] == "baseline"]
                if not cands or r.random() < 0.4:
                    cands = [self.make_data(r.choice(self.pool[fam]))]
                self.fit(fam, r.choice(cands))
            elif op == "fit_shared":
                # a second model on a baseline object another client already used
                if self.n_fit >= 5:
                    continue
                cands = [(s, rec) for s, rec in sorted(self.data.items()) if rec["role"] == "baseline"
                         and rec["fam"] != "caltrack"]
                if not cands:
                    continue
                s, rec = r.choice(cands)
                fam = {"daily": "daily", "billing": "billing", "hourly": "hourly"}[rec["fam"]]
                self.fit(fam, s)
            elif op == "refit_key":
                # the same key again: rebuilt data object, maybe after perturbations, maybe on the same model object
                if not fitted or self.n_fit >= 6:
                    continue
                ms = r.choice(fitted)
                m = self.models[ms]
                if m["fam"] == "caltrack" or m.get("restored"):
                    continue
                if FIT_COST.get((m["fam"], m["profile"]), FIT_COST.get(m["fam"], 1)) > 4 and r.random() < 0.7:
                    continue
                if r.random() < 0.7:
                    self.fault()
                d = self.make_data(m["base"])
                if r.random() < 0.25:
                    self.fit(m["fam"], d, profile=m["profile"], ignore=m["ignore"], mslot=ms, reuse=True)
                else:
                    self.fit(m["fam"], d, profile=m["profile"], ignore=m["ignore"])
            elif op == "refit_after_failed":
                if not fitted or self.n_fit >= 6:
                    continue
                ms = r.choice(fitted)
                m = self.models[ms]
                if m["fam"] == "caltrack" or m.get("restored"):
                    continue
                if FIT_COST.get((m["fam"], m["profile"]), FIT_COST.get(m["fam"], 1)) > 2.5:
                    continue
                self._fit_after_failed(m["fam"], m["profile"], self._other_base(m["fam"], m["profile"], m["base"]),
                                       m["base"], ignore=m["ignore"])
            elif op == "refit_other":
                # the same model object fitted again on ANOTHER meter of its family
                if not fitted or self.n_fit >= 6:
                    continue
                ms = r.choice(fitted)
                m = self.models[ms]
                if m["fam"] == "caltrack" or m.get("restored"):
                    continue
                if FIT_COST.get((m["fam"], m["profile"]), FIT_COST.get(m["fam"], 1)) > 4:
                    continue
                others = [b_ for b_ in self.pool[m["fam"]] if b_ != m["base"]] if m["fam"] in self.pool else []
                base = r.choice(others) if others else self._new_base(m["fam"])
                if P.needs_ghi(m["fam"], m["profile"]) and not base.get("ghi"):
                    base = dict(base, ghi=True)
                    if base.get("src") == "sample":
                        base.pop("src")
                        base["mid"] += 100
                d = self.make_data(base)
                self.fit(m["fam"], d, profile=m["profile"], ignore=True, mslot=ms, reuse=True)
                self.make_data(self._reporting(base, obs="present"))
                dd = self._data_for(ms)
                if dd:
                    self.predict(ms, dd[-1], ignore=True)
            elif op == "portfolio":
                # two or three meters of the normalised portfolio, in a drawn order, with the standard profile
                fams = [f for f in ("hourly", "daily") if f in sw["families"]]
                if not fams or self.n_fit >= 7:
                    continue
                fam = r.choice(fams)
                for mid in r.sample(PORTFOLIO[fam], r.choice([2, 2, 3])):
                    d = self.make_data(self._portfolio_base(fam, mid))
                    self.fit(fam, d, profile=PORTFOLIO_PROFILE[fam], ignore=True, allow_abort=False)
            elif op == "predict":
                if not fitted:
                    continue
                ms = r.choice(fitted)
                ds = self._data_for(ms) + (self._data_for(ms, "baseline") if r.random() < 0.25 else [])
                if not ds:
                    self.make_data(self._reporting(self.models[ms]["base"]))
                    ds = self._data_for(ms)
                    if not ds:
                        continue
                self.predict(ms, r.choice(ds))
            elif op == "predict_odd":
                # gate probes: foreign data family, foreign timezone, flags at random
                if not fitted:
                    continue
                ms = r.choice(fitted)
                m = self.models[ms]
                how = r.choice(["foreign_type", "foreign_tz", "foreign_tz", "flag"])
                if how == "foreign_type":
                    others = [s for s, rec in sorted(self.data.items()) if rec["fam"] != self._data_fam(m["fam"])]
                    if not others:
                        ofam = r.choice([f for f in ("daily", "billing", "hourly") if f != m["fam"]])
                        others = [self.make_data(self._reporting(self._new_base(ofam), span=r.choice(["week", "month"])))]
                    self.predict(ms, r.choice(others), ignore=r.random() < 0.5)
                elif how == "foreign_tz":
                    if m["base"].get("src") == "sample":
                        continue
                    d = self.make_data(self._reporting(m["base"], foreign_tz=True, span=r.choice(["week", "month", "full"])))
                    self.predict(ms, d, ignore=r.random() < 0.5)
                else:
                    ds = self._data_for(ms)
                    if ds:
                        self.predict(ms, r.choice(ds), ignore=r.random() < 0.5)
            elif op == "pair":
                if not fitted:
                    continue
                ms = r.choice(fitted)
                m = self.models[ms]
                if m["fam"] == "caltrack" and r.random() < 0.7:
                    continue
                rec = self._reporting(m["base"], obs="present")
                rec["tgap"] = 1 if r.random() < 0.45 else 0
                alter = _wchoice(r, [("scaled", 2), ("shuffled", 2), ("partnan", 2), ("allnan", 2), ("absent", 2),
                                     ("partnan2", 1.5), ("monthnan", 1.5)])
                if alter == "partnan2":
                    rec["obs"] = "partnan"
                args = dict(m=ms, recipe=rec, alter=alter)
                if m["fam"] == "billing" and r.random() < 0.35:
                    # aggregated predictions: only an alteration that keeps the missing-usage pattern is comparable
                    args["alter"] = r.choice(["scaled", "scaled", "allnan", "absent"])
                    rec["obs"] = "present"
                    args["agg"] = r.choice(["monthly", "bimonthly"])
                if r.random() < 0.5:
                    args["seq"] = True   # one copy of the model predicts both sets, one after the other
                self.emit("PREDICT_PAIR", **args)
                self.cost += 2 * PRED_COST.get(m["fam"], 0.3)
            elif op == "store":
                if not fitted:
                    continue
                self.store(r.choice(fitted))
            elif op == "load":
                if not self.docs:
                    continue
                self.load(r.choice(sorted(self.docs)))
            elif op == "store_load_predict":
                if not fitted:
                    continue
                ms = r.choice(fitted)
                doc = self.store(ms)
                if sw["faults"]["crash"] and restarts < 3 and r.random() < 0.5:
                    base = self.models[ms]["base"]
                    self.crash()
                    restarts += 1
                    ms2 = self.load(doc)
                    self.make_data(self._reporting(base))
                else:
                    ms2 = self.load(doc, mslot=ms if r.random() < 0.3 else None)
                ds = self._data_for(ms2)
                if not ds:
                    self.make_data(self._reporting(self.models[ms2]["base"]))
                    ds = self._data_for(ms2)
                if ds:
                    self.predict(ms2, r.choice(ds))
                if r.random() < 0.5:
                    self.store(ms2)
            elif op == "crash":
                if restarts >= 3:
                    continue
                docs = sorted(self.docs)
                self.crash()
                restarts += 1
                # recovery: restore the latest documents, rebuild some data
                for doc in docs[-2:]:
                    ms = self.load(doc)
                    self.make_data(self._reporting(self.models[ms]["base"]))
                if not docs:
                    fam = r.choice(sw["families"])
                    if not (fam == "caltrack" and self.caltrack_used):
                        bb = self.make_data(r.choice(self.pool[fam]))
                        self.fit(fam, bb)
            elif op == "abort_sweep":
                if not fitted or not sw["faults"]["abort"]:
                    continue
                ms = r.choice(fitted)
                if self.models[ms]["fam"] == "caltrack":
                    continue
                d = self.make_data(self._reporting(self.models[ms]["base"], span=r.choice(["day", "week"])))
                self.emit("ABORT_SWEEP", m=ms, d=d, exc=r.choice(["MemoryError", "KeyboardInterrupt"]))
                self.cost += 1.5
            elif op == "serial_sweep":
                if not fitted or not sw["faults"]["abort"]:
                    continue
                ms = r.choice(fitted)
                if self.models[ms]["fam"] == "caltrack" and r.random() < 0.6:
                    continue
                self.emit("SERIAL_ABORT_SWEEP", m=ms, exc=r.choice(["MemoryError", "KeyboardInterrupt"]))
                self.cost += 1.0 if self.models[ms]["fam"] != "caltrack" else 30
            elif op == "grid":
                cands = [m_ for m_ in fitted if self.models[m_]["fam"] in ("daily", "billing")]
                if cands:
                    self.emit("PREDICT_GRID", m=r.choice(cands), d=N_DATA_SLOTS - 1)
                    self.data.pop(N_DATA_SLOTS - 1, None)
                    self.cost += 0.5
            elif op == "scribble_data":
                if self.data:
                    self.emit("SCRIBBLE_DATA", d=r.choice(sorted(self.data)))
            elif op == "scribble_pred":
                if fitted:
                    self.emit("SCRIBBLE_PRED", m=r.choice(fitted))
            elif op == "inspect":
                if fitted:
                    self.emit("INSPECT", m=r.choice(fitted))
            elif op == "new_model":
                fam = r.choice(sw["families"])
                ms = self._free_model_slot()
                self.emit("NEW_MODEL", m=ms, fam=fam, profile=self._profile(fam))
                self.models[ms] = {"fam": fam, "profile": None, "fitted": False,
                                   "base": r.choice(self.pool[fam])}
                d = self.make_data(self._reporting(self.models[ms]["base"], span=r.choice(["week", "month"])))
                self.predict(ms, d, ignore=r.random() < 0.5)
                self.models.pop(ms, None)
            elif op == "fault":
                self.fault()
        if mode == "C03":
            # the anchor key once more, by a fresh model, after whatever this run did to the process
            fam_a, prof_a, base_a = ANCHORS[idx % len(ANCHORS)]
            d_a = self.make_data(dict(base_a), slot=N_DATA_SLOTS - 1)
            m_a = self.fit(fam_a, d_a, profile=prof_a, ignore=True, mslot=N_MODEL_SLOTS - 1, allow_abort=False)
            # ... and the same key by a fresh object in the process image taken before the run did anything
            self.events[-1]["args"]["vs_fresh"] = True
            rep_a = {k: v for k, v in base_a.items() if k != "role"}
            rep_a.update(role="reporting", span="partial" if base_a.get("src") == "sample" else "month", obs="present", tgap=0)
            r_a = self.make_data(rep_a, slot=N_DATA_SLOTS - 2)
            self.predict(m_a, r_a, ignore=True)
            self.events[-1]["args"].pop("abort", None)
        return {"seed": self.seed, "mode": mode, "backend": self.backend, "swarm": sw, "events": self.events}


def generate(seed: int, mode: str, tier: str = "quick", backend: str = "objsim") -> dict:
    return Gen(seed, mode, tier, backend).run()


def schedule_digest(sched: dict) -> str:
    return hashlib.sha256(json.dumps(sched["events"], sort_keys=True).encode()).hexdigest()[:24]
