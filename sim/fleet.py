"""fleetsim: a fleet of real worker interpreters, baton-passed by a parent that owns the PRNG, the clock
of events and the document store.  Exactly one worker executes at a time, so the global order of events
is the scheduler's and replays exactly, while every worker keeps its own real process history and its
own environment (hash seed, BLAS threads, TZ, import order, JIT cache state).

Faults: CRASH_RESTART(w) = SIGKILL + fresh interpreter with a newly drawn environment (only the store
survives); CRASH_IN_OP = the worker exits at the k-th entry of a library function inside the op.
"""
from __future__ import annotations

import json
import math
import os
import random
import select
import signal
import subprocess
import sys
import time

from . import env, gen

CMD_TIMEOUT = float(os.environ.get("VERIF_CMD_TIMEOUT", "600"))
START_TIMEOUT = 600.0

# ------------------------------------------------------------------ worker side


def worker_main():
    proto_out = os.fdopen(os.dup(1), "w")
    devnull = os.open(os.devnull, os.O_WRONLY)
    os.dup2(devnull, 1)
    os.dup2(devnull, 2)
    import faulthandler

    faulthandler.enable(file=open(os.path.join(env.CACHE_ROOT, "fleet-faults.log"), "a"))
    order = os.environ.get("VERIF_IMPORT_ORDER", "opendsm-first")
    env.import_library(order)
    from . import seams
    from .worker import Worker

    w = Worker(int(os.environ.get("VERIF_WID", "0")))
    store = {}
    armed = None

    def send(obj):
        proto_out.write(json.dumps(obj, default=str) + "\n")
        proto_out.flush()

    for line in sys.stdin:
        cmd = json.loads(line)
        op = cmd["op"]
        if op == "HELLO":
            import numpy as np
            import pandas as pd
            import threadpoolctl

            info = threadpoolctl.threadpool_info()
            send({"ok": True, "facts": {
                "pid": os.getpid(), "hashseed": os.environ.get("PYTHONHASHSEED"), "tz": os.environ.get("TZ"),
                "threads_env": os.environ.get("OMP_NUM_THREADS"), "import_order": order,
                "blas_threads": sorted({i.get("num_threads") for i in info}),
                "numba_cache": os.environ.get("NUMBA_CACHE_DIR", "").split(os.sep)[-1],
                "numpy": np.__version__, "pandas": pd.__version__}})
        elif op == "ARM_CRASH":
            armed = int(cmd["k"])
            send({"ok": True})
        elif op == "EXEC":
            store.update(cmd.get("store") or {})
            ev = cmd["event"]
            if armed is not None:
                mon = seams.EntryMonitor()
                mon.k, mon.mode = armed, "exit"
                armed = None
                with mon:
                    out = w.exec(ev, store)
                out["crash_armed_not_fired"] = {"k": mon.k, "entries": mon.count}
            else:
                out = w.exec(ev, store)
            new = {}
            if ev["kind"] == "STORE" and out.get("class") == "returned":
                doc = ev["args"]["doc"]
                new[doc] = {kk: vv for kk, vv in store[doc].items() if kk != "obj"}
            send({"ok": True, "out": out, "store_new": new, "probes": w.probes,
                  "sim_s": w.clock.now - 1000.0})
        elif op == "BYE":
            send({"ok": True})
            break
    os._exit(0)


# ------------------------------------------------------------------ parent side


class Proc:
    def __init__(self, wid, cfg, th):
        self.wid = wid
        self.cfg = cfg
        numba_dir = env.numba_cache_dir("shared", th)
        if cfg.get("numba") == "cold-private":
            numba_dir = os.path.join(env.CACHE_ROOT, "numba-private", f"{os.getpid()}-{wid}-{time.time_ns()}")
            os.makedirs(numba_dir, exist_ok=True)
            self.private_dir = numba_dir
        else:
            self.private_dir = None
        e = env.child_env(threads=cfg.get("threads"), hashseed=cfg.get("hashseed"), tz=cfg.get("tz"),
                          numba_dir=numba_dir, th=th)
        e["VERIF_WID"] = str(wid)
        e["VERIF_IMPORT_ORDER"] = cfg.get("import_order", "opendsm-first")
        self.p = subprocess.Popen([env.PY, "-W", "ignore", "-c", "from sim import fleet; fleet.worker_main()"],
                                  cwd=env.VERIF, env=e, stdin=subprocess.PIPE, stdout=subprocess.PIPE,
                                  stderr=subprocess.DEVNULL, text=True, bufsize=1)
        self.facts = None

    def call(self, cmd, timeout=CMD_TIMEOUT):
        try:
            self.p.stdin.write(json.dumps(cmd, default=str) + "\n")
            self.p.stdin.flush()
        except (BrokenPipeError, OSError):
            return None
        deadline = time.time() + timeout
        while True:
            left = deadline - time.time()
            if left <= 0:
                return {"timeout": True}
            r, _, _ = select.select([self.p.stdout], [], [], min(left, 2.0))
            if r:
                line = self.p.stdout.readline()
                if not line:
                    return None  # worker died
                return json.loads(line)
            if self.p.poll() is not None:
                line = self.p.stdout.readline()
                return json.loads(line) if line else None

    def kill(self):
        try:
            self.p.kill()
        except Exception:  # noqa: BLE001
            pass
        try:
            self.p.wait(timeout=10)
        except Exception:  # noqa: BLE001
            pass
        if self.private_dir:
            import shutil

            shutil.rmtree(self.private_dir, ignore_errors=True)


def run_fleet(sched: dict) -> dict:
    """Execute a fleet schedule; returns a record like runner.execute()."""
    from . import oracles, runner

    t0 = time.time()
    th = env.tree_hash()
    procs = {}
    store = {}
    outs = []
    worker_facts = []
    faults = {}
    probes = {}
    sim_s = {}
    fatal = None

    def start(wid, cfg):
        pr = Proc(wid, cfg, th)
        procs[wid] = pr
        return pr

    def hello(pr):
        r = pr.call({"op": "HELLO"}, timeout=START_TIMEOUT)
        if not r or r.get("timeout"):
            raise RuntimeError(f"worker {pr.wid} did not start")
        pr.facts = r["facts"]
        worker_facts.append({"w": pr.wid, "cfg": pr.cfg, **r["facts"]})

    try:
        # start-up is done in parallel; only EXEC is baton-passed
        for wid, cfg in enumerate(sched["workers"]):
            start(wid, cfg)
        for wid in sorted(procs):
            hello(procs[wid])
        for ev in sched["events"]:
            wid = ev.get("w", 0)
            kind = ev["kind"]
            if kind == "CRASH_RESTART":
                procs[wid].kill()
                pr = start(wid, ev["args"]["cfg"])
                hello(pr)
                outs.append({"class": "done", "restarted": True})
                faults["CRASH_RESTART"] = faults.get("CRASH_RESTART", 0) + 1
                continue
            pr = procs[wid]
            need = {}
            if kind == "LOAD" and ev["args"]["doc"] in store:
                need[ev["args"]["doc"]] = store[ev["args"]["doc"]]
            ck = ev.get("crash_k")
            if ck:
                pr.call({"op": "ARM_CRASH", "k": ck})
            r = pr.call({"op": "EXEC", "event": {k: v for k, v in ev.items() if k not in ("w", "crash_k")},
                         "store": need})
            if r is None:
                if ck:
                    outs.append({"class": "crashed", "crash_k": ck})
                    faults["CRASH_IN_OP"] = faults.get("CRASH_IN_OP", 0) + 1
                    pr.kill()
                    pr = start(wid, ev.get("restart_cfg") or pr.cfg)
                    hello(pr)
                    continue
                raise RuntimeError(f"worker {wid} died in {kind} without an injected crash")
            if r.get("timeout"):
                raise RuntimeError(f"worker {wid} timed out in {kind}")
            out = r["out"]
            if ck:
                faults["CRASH_NOT_FIRED"] = faults.get("CRASH_NOT_FIRED", 0) + 1
            store.update(r.get("store_new") or {})
            for k, v in (r.get("probes") or {}).items():
                probes[(wid, pr.p.pid, k)] = v
            sim_s[(wid, pr.p.pid)] = r.get("sim_s", 0.0)
            outs.append(out)
    except Exception as e:  # noqa: BLE001
        fatal = f"{type(e).__name__}: {e}"
    finally:
        for pr in procs.values():
            try:
                pr.call({"op": "BYE"}, timeout=5)
            except Exception:  # noqa: BLE001
                pass
            pr.kill()
    if fatal:
        return {"fatal": fatal, "seed": sched.get("seed"), "backend": "fleetsim"}
    events = sched["events"]
    V, keys, H, notes = oracles.judge(events, outs)
    stats = {"events": len(outs), "by_kind": {}, "classes": {}, "faults_fired": dict(faults), "ops_by_family": {},
             "presigs": [], "probes": {}, "simulated_seconds": sum(sim_s.values()), "clock_reads": 0}
    for (_w, _pid, k), v in probes.items():
        stats["probes"][k] = stats["probes"].get(k, 0) + v
    for ev, out in zip(events, outs):
        k = ev["kind"]
        stats["by_kind"][k] = stats["by_kind"].get(k, 0) + 1
        c = out.get("class", "?")
        ck = k + ":" + (c if not c.startswith("raised:") else "raised")
        stats["classes"][ck] = stats["classes"].get(ck, 0) + 1
        if k in ("THREAD", "BLAS", "CLOCK", "RNG") and c == "done":
            stats["faults_fired"][k] = stats["faults_fired"].get(k, 0) + 1
        fam = (out.get("facts") or {}).get("fam") or out.get("fam") or out.get("dfam")
        if fam and c != "skipped":
            stats["ops_by_family"][fam] = stats["ops_by_family"].get(fam, 0) + 1
        if out.get("presig") is not None:
            sig = dict(out["presig"])
            wf = next((f for f in worker_facts[::-1] if f["w"] == ev.get("w", 0)), {})
            sig["worker_env"] = [wf.get("hashseed"), wf.get("threads_env"), wf.get("tz"), wf.get("import_order"),
                                 (wf.get("cfg") or {}).get("numba")]
            stats["presigs"].append((json.dumps(sig, sort_keys=True), True, k))
    cold = sum(1 for f in worker_facts if (f.get("cfg") or {}).get("numba") == "cold-private")
    if cold:
        stats["probes"]["cold_jit_compile_in_worker"] = cold
    return {
        "seed": sched.get("seed"), "mode": sched.get("mode"), "backend": "fleetsim",
        "schedule_digest": gen.schedule_digest(sched),
        "history_digest": runner.history_digest(events, outs),
        "violations": V, "harness_errors": H, "notes": notes[:20],
        "keys": {k: v[0] for k, v in keys.items()}, "stats": stats, "wall": time.time() - t0,
        "n_events": len(outs), "workers": [{k: v for k, v in f.items() if k != "pid"} for f in worker_facts],
        "outs_brief": [{"seq": e["seq"], "w": e.get("w", 0), "kind": e["kind"], "class": o.get("class")}
                       for e, o in zip(events, outs)],
    }


# ------------------------------------------------------------------ schedule generation


def _env_cfg(r, allow_cold):
    return {
        "hashseed": r.choice(["0", str(r.randrange(1, 2**31)), str(r.randrange(1, 2**31))]),
        "threads": r.choice([None, "1", "3", "16"]),
        "tz": r.choice([None, None, "UTC", "Asia/Kolkata", "America/New_York", "Australia/Lord_Howe"]),
        "import_order": r.choice(["opendsm-first", "deps-first"]),
        "numba": "cold-private" if (allow_cold and r.random() < 0.5) else "warm-shared",
        "start": "exec",
    }


def generate(seed: int, mode: str, tier: str = "quick") -> dict:
    """Fleet schedule: pure function of (seed, mode)."""
    r = random.Random(seed * 8 + gen.MODES.index(mode) + 5)
    g = gen.Gen(seed, mode, tier, "fleetsim")
    g.rng = r
    g.configure()
    W = r.choice([2, 2, 3, 4]) if mode != "C03" else r.choice([2, 3, 4, 6])
    cold_budget = 1 if (tier == "thorough" and r.random() < 0.15) else 0
    workers = []
    for _ in range(W):
        cfg = _env_cfg(r, cold_budget > 0)
        if cfg["numba"] == "cold-private":
            cold_budget -= 1
        workers.append(cfg)
    events = []

    def emit(w, kind, crash_k=None, **args):
        ev = {"seq": len(events), "w": w, "kind": kind, "args": args}
        if crash_k:
            ev["crash_k"] = crash_k
            ev["restart_cfg"] = _env_cfg(r, False)
        events.append(ev)
        return ev

    fams = [f for f in g.swarm["families"] if f != "caltrack"] or ["daily"]
    doc_n = [0]

    def perturb(w):
        how = r.choice(["rng", "clock", "thread", "blas", "history", "none"])
        if how == "rng":
            emit(w, "RNG", how=r.choice(["reseed", "draw"]), x=r.randrange(1, 9999))
        elif how == "clock":
            u = r.random()
            if u < 0.3:
                emit(w, "CLOCK", how="native_jump", x=r.choice([6.0, 30.0, 3600.0]), n=r.choice([2, 10, 60, 400]))
            elif u < 0.55:
                emit(w, "CLOCK", how="date", x=86400.0 * r.choice([1, -1, 35, 400, 3660, -3650, -12000]), n=1)
            else:
                emit(w, "CLOCK", how=r.choice(["jump", "skew", "stall"]), x=r.choice([-3600.0, 7.0, 86400.0]), n=1)
        elif how == "thread":
            emit(w, "THREAD", on=True)
        elif how == "blas":
            emit(w, "BLAS", n=r.choice([1, 2, 16]))
        elif how == "history":
            of = r.choice(["daily", "billing", "hourly"])
            base = g._new_base(of)
            base.pop("defect", None)
            emit(w, "MAKE_DATA", d=5, recipe=base)
            emit(w, "FIT", m=3, fam=of, profile=g._profile(of), d=5, ignore=True)
            emit(w, "MAKE_DATA", d=4, recipe=g._reporting(base, span=r.choice(["week", "month"])))
            emit(w, "PREDICT", m=3, d=4, ignore=True)

    n_keys = r.choice([1, 2, 2, 3])
    for _k in range(n_keys):
        fam = r.choice(fams)
        base = r.choice(g.pool[fam]) if r.random() < 0.7 else g._new_base(fam)
        if mode != "C04":
            base = {k: v for k, v in base.items() if k != "defect"}
        profile = g._profile(fam)
        if gen.FIT_COST.get((fam, profile), 1) > 4:
            profile = "default"
        ignore = bool(base.get("defect")) or r.random() < 0.3
        rep = [g._reporting(base, span=s, obs="present") for s in r.sample(["week", "month", "full", "partial"], 2)]
        for x in rep:
            x["tgap"] = 0
        n_fits = r.choice([2, 2, 3]) if mode == "C03" else r.choice([1, 2])
        ws = [r.randrange(W) for _ in range(n_fits)]
        if n_fits >= 2 and len(set(ws)) == 1 and W > 1:
            ws[1] = (ws[0] + 1) % W
        docs = []
        for i, w in enumerate(ws):
            if r.random() < 0.6:
                perturb(w)
            if r.random() < (0.25 if mode == "C03" else 0.1):
                emit(w, "CRASH_RESTART", cfg=_env_cfg(r, False))
            emit(w, "MAKE_DATA", d=0, recipe=base)
            ck = None
            if r.random() < (0.3 if mode == "C03" else 0.12):
                typical = {"daily": 60000, "billing": 8000, "hourly": 900}.get(fam, 5000)
                ck = max(1, int(math.exp(r.uniform(0, math.log(2 * typical)))))
            emit(w, "FIT", crash_k=ck, m=0, fam=fam, profile=profile, d=0, ignore=ignore)
            if ck:
                # re-issue after the (possible) crash: the restarted worker has lost everything volatile
                emit(w, "MAKE_DATA", d=0, recipe=base)
                emit(w, "FIT", m=0, fam=fam, profile=profile, d=0, ignore=ignore)
            if r.random() < 0.4:
                emit(w, "MAKE_DATA", d=1, recipe=g._reporting(base, span=r.choice(["day", "week"])))
                emit(w, "PREDICT", m=0, d=1, ignore=True)
            doc = f"doc{doc_n[0]}"
            doc_n[0] += 1
            emit(w, "STORE", m=0, doc=doc, form="json", panel=rep)
            docs.append(doc)
            emit(w, "MAKE_DATA", d=2, recipe=rep[0])
            emit(w, "PREDICT", m=0, d=2, ignore=True)
        # restore on other workers, 1-3 generations
        doc = r.choice(docs)
        for gen_i in range(r.choice([1, 1, 2, 3]) if mode in ("C01", "C04") else r.choice([0, 1])):
            w = r.randrange(W)
            if r.random() < 0.4:
                emit(w, "CRASH_RESTART", cfg=_env_cfg(r, False))
            elif r.random() < 0.4:
                perturb(w)
            # a third of the documents come back from a store that normalises JSON (member order, whitespace)
            emit(w, "LOAD", doc=doc, m=1, form="json_sorted" if r.random() < 0.34 else "json")
            rr = r.choice(rep)
            emit(w, "MAKE_DATA", d=3, recipe=rr)
            emit(w, "PREDICT", m=1, d=3, ignore=True if mode != "C04" else r.random() < 0.5)
            doc = f"doc{doc_n[0]}"
            doc_n[0] += 1
            emit(w, "STORE", m=1, doc=doc, form="json", panel=rep)
    return {"seed": seed, "mode": mode, "backend": "fleetsim", "workers": workers, "swarm": g.swarm, "events": events}


# ------------------------------------------------------------------ batch / report


def run_job(job):
    seed, mode, tier = job
    sched = generate(seed, mode, tier)
    rec = run_fleet(sched)
    rec["seed"] = seed
    rec["backend"] = "fleetsim"
    rec["sched"] = sched
    return rec


def run_batch(a, prop, n):
    from concurrent.futures import ThreadPoolExecutor

    from . import batch

    jobs = [(batch.batch_seed(a.seed, 500_000 + i), prop, a.tier) for i in range(n)]
    recs, fatal = [], []
    lost = []
    with ThreadPoolExecutor(max_workers=8) as tp:
        for job, rec in zip(jobs, tp.map(run_job, jobs)):
            if rec.get("fatal"):
                lost.append((job, rec))
            else:
                recs.append(rec)
    for job, first in lost:   # once more, alone, before it counts as a harness error
        rec = run_job(job)
        if rec.get("fatal"):
            rec["first_attempt"] = first.get("fatal")
            fatal.append(rec)
        else:
            recs.append(rec)
    return recs, fatal


def report(rec, prop, sig, n):
    """Minimise a failing fleet schedule (drop whole trailing/leading blocks) and write its replay file."""
    from . import batch

    sched = rec["sched"]
    v = next(v for v in rec["violations"] if v["prop"] == prop and v["sig"] == sig)
    events = [e for e in sched["events"] if e["seq"] <= v["seq"]]
    tried = 0
    best = events

    def holds(evs):
        nonlocal tried
        tried += 1
        s = dict(sched)
        s["events"] = batch._renumber(evs)
        r = run_fleet(s)
        return any(x["prop"] == prop and x["sig"] == sig for x in r.get("violations") or [])

    t0 = time.time()
    # drop events that do not touch the violating worker's objects: perturbations first, then one at a time
    order = [i for i, e in enumerate(best) if e["kind"] in ("RNG", "CLOCK", "THREAD", "BLAS")] + \
            [i for i, e in enumerate(best) if e["kind"] not in ("RNG", "CLOCK", "THREAD", "BLAS")]
    reproduced = holds(best)
    if reproduced:
        for i in sorted(order, reverse=True):
            if time.time() - t0 > 240 or tried > 25 or i >= len(best) - 1:
                continue
            cand = best[:i] + best[i + 1:]
            if holds(cand):
                best = cand
    sched2 = dict(sched)
    path = os.path.join(batch.REPLAY_DIR, f"{prop}-fleet-{rec['seed']}-{n}.json")
    os.makedirs(batch.REPLAY_DIR, exist_ok=True)
    doc = {"property": prop, "signature": sig, "seed": rec["seed"], "mode": prop, "tree_hash": env.tree_hash(),
           "backend": "fleetsim", "workers": sched2["workers"], "events": batch._renumber(best),
           "expect": {"detail": v["detail"]}, "minimised_from": len(sched["events"]), "candidates_tried": tried,
           "minimisation_reproduced": reproduced}
    with open(path, "w") as f:
        json.dump(doc, f, indent=1, default=str)
    ok = holds(best) if reproduced else False
    return path, ok
