"""Model families and constructor profiles (every profile is deterministic: explicit seeds only)."""
from __future__ import annotations

import copy

# model family -> (model class name, data family it accepts)
FAMILIES = {
    "daily": ("DailyModel", "daily"),
    "billing": ("BillingModel", "billing"),
    "hourly": ("HourlyModel", "hourly"),
    "caltrack": ("HourlyCaltrackModel", "caltrack"),
}

_ALT_SEASON = {
    "january": "winter", "february": "winter", "march": "winter", "april": "shoulder", "may": "summer",
    "june": "summer", "july": "summer", "august": "summer", "september": "shoulder", "october": "shoulder",
    "november": "shoulder", "december": "winter",
}
_ALT_WEEK = {
    "monday": "weekday", "tuesday": "weekday", "wednesday": "weekday", "thursday": "weekday",
    "friday": "weekend", "saturday": "weekend", "sunday": "weekday",
}

PROFILES = {
    "daily": {
        "default": dict(kwargs={}),
        "legacy": dict(kwargs={"model": "legacy"}),
        "seasonmap": dict(kwargs={"settings": {"season": _ALT_SEASON, "weekday_weekend": _ALT_WEEK,
                                               "uncertainty_alpha": 0.05}}),
        "weekmap": dict(kwargs={"settings": {"weekday_weekend": dict(_ALT_WEEK, friday="weekend", sunday="weekend")}},
                        wants_weekend_regime=True),   # Fri+Sat+Sun weekend: a weekday/weekend split gets selected
        "shared_dict": dict(kwargs={"settings": "SHARED_DICT"}),  # ONE settings dict for every model of this profile
        "dev_nosmooth": dict(kwargs={"settings": {"developer_mode": True, "allow_smooth_model": False}}),
        "dev_alphaall": dict(kwargs={"settings": {"developer_mode": True, "alpha_final_type": "all"}}),
        "dev_nogauss": dict(kwargs={"settings": {"developer_mode": True, "split_selection": {
            "reduce_splits_by_gaussian": False, "reduce_splits_num_std": None, "penalty_multiplier": 0.05}}}),
        "dev_cvrmse": dict(kwargs={"settings": {"developer_mode": True, "cvrmse_threshold": 0.02}}),
        "legacy_dev": dict(kwargs={"model": "legacy", "settings": {"developer_mode": True,
                                                                  "allow_smooth_model": True}}),
    },
    "billing": {
        "default": dict(kwargs={}),
        "seasonmap": dict(kwargs={"settings": {"season": _ALT_SEASON, "uncertainty_alpha": 0.2}}),
        "dev_cvrmse": dict(kwargs={"settings": {"developer_mode": True, "cvrmse_threshold": 0.02}}),
        "dev_split": dict(kwargs={"settings": {"developer_mode": True, "split_selection": {
            "allow_separate_summer": True, "allow_separate_winter": True, "allow_separate_shoulder": True}}}),
    },
    "hourly": {
        "seed1": dict(kwargs={"settings": {"seed": 1}}),
        "seed0": dict(kwargs={"settings": {"seed": 0}}),   # a legal seed that is falsy
        "robust": dict(kwargs={"settings": {"seed": 7, "scaling_method": "robustscaler"}}),
        "solar": dict(kwargs={"settings": {"train_features": ["temperature", "ghi"], "seed": 3}}, needs_ghi=True),
        "solar_rev": dict(kwargs={"settings": {"train_features": ["ghi", "temperature"], "seed": 3}}, needs_ghi=True),
        "nonsolar": dict(kwargs={"settings": {"train_features": ["temperature"], "seed": 3}}),
        "adaptive": dict(kwargs={"settings": {"seed": 2, "elasticnet": {
            "adaptive_weights": True, "adaptive_weight_max_iter": 8, "adaptive_weight_tol": 1e-4}}}),
        "adaptive_lowthr": dict(kwargs={"settings": {"seed": 2, "cvrmse_threshold": 0.01, "pnrmse_threshold": 0.01,
                                                      "elasticnet": {"adaptive_weights": True, "adaptive_weight_max_iter": 6,
                                                                     "adaptive_weight_tol": 1e-4}}}),
        "lowthr": dict(kwargs={"settings": {"seed": 5, "cvrmse_threshold": 0.01, "pnrmse_threshold": 0.01}}),
        "cvonly": dict(kwargs={"settings": {"seed": 6, "cvrmse_threshold": 0.01}}),   # misses CVRMSE only: acceptable
        "pnonly": dict(kwargs={"settings": {"seed": 6, "pnrmse_threshold": 0.01}}),   # misses PNRMSE only: acceptable
        "noedge": dict(kwargs={"settings": {"seed": 8, "temperature_bin": {
            "include_edge_bins": False, "edge_bin_rate": None, "edge_bin_percent": None}}}),
        "supp": dict(kwargs={"settings": {"seed": 9, "supplemental_time_series_columns": ["extra_ts"]}}, needs_extra=True),
        "suppcat": dict(kwargs={"settings": {"seed": 9, "supplemental_categorical_columns": ["extra_cat"]}}, needs_extra=True),
        "randsel": dict(kwargs={"settings": {"seed": 4, "elasticnet": {"selection": "random"}}}),   # seeded random coordinate order
        "shared_randsel": dict(kwargs={"settings": "SHARED_RANDSEL"}),  # ... with ONE settings object for every model
        "obj": dict(kwargs={"settings": "OBJ"}),  # a settings object instead of a dict
        "shared_obj": dict(kwargs={"settings": "SHARED_OBJ"}),  # ONE settings object for every model of this profile
    },
    "caltrack": {
        "default": dict(kwargs={}),
    },
}


_SHARED = {}


def make_model(em, fam: str, profile: str):
    cls = getattr(em, FAMILIES[fam][0])
    kw = copy.deepcopy(PROFILES[fam][profile]["kwargs"])
    if kw.get("settings") == "OBJ":
        from opendsm.eemeter.models.hourly import settings as hs

        kw["settings"] = hs.HourlyNonSolarSettings(seed=11, min_daily_training_hours=10)
    elif kw.get("settings") == "SHARED_OBJ":
        from opendsm.eemeter.models.hourly import settings as hs

        if "hourly" not in _SHARED:
            _SHARED["hourly"] = hs.BaseHourlySettings(seed=12)
        kw["settings"] = _SHARED["hourly"]     # the very same object for every model of this profile in the process
    elif kw.get("settings") == "SHARED_RANDSEL":
        from opendsm.eemeter.models.hourly import settings as hs

        if "hourly_randsel" not in _SHARED:
            _SHARED["hourly_randsel"] = hs.BaseHourlySettings(seed=13, elasticnet={"selection": "random"})
        kw["settings"] = _SHARED["hourly_randsel"]
    elif kw.get("settings") == "SHARED_DICT":
        if "daily" not in _SHARED:
            _SHARED["daily"] = {"uncertainty_alpha": 0.2, "season": dict(_ALT_SEASON)}
        kw["settings"] = _SHARED["daily"]      # the very same dict object (a caller looping over meters)
    return cls(**kw)


def needs_ghi(fam: str, profile: str) -> bool:
    return bool(PROFILES[fam][profile].get("needs_ghi"))


def needs_extra(fam: str, profile: str) -> bool:
    return bool(PROFILES[fam][profile].get("needs_extra"))


def wants_weekend_regime(fam: str, profile: str) -> bool:
    return bool(PROFILES[fam][profile].get("wants_weekend_regime"))


def sibling(fam: str, profile: str) -> str:
    """Another profile of the family that differs where state could be shared by mistake: the season and weekday maps
    (daily, billing), the scaler (hourly)."""
    if fam in ("daily", "billing"):
        return "default" if profile == "seasonmap" else "seasonmap"
    if fam == "hourly":
        return "robust" if profile == "seed1" else "seed1"
    return profile
