"""Seams the simulator owns: virtual clock, abort/crash points inside library calls, RNG, BLAS pool, thread identity."""
from __future__ import annotations

import os
import sys
import threading

from . import env

_TOOL = 3  # a free sys.monitoring tool id
_LIB_PREFIX = os.path.join(os.path.abspath(env.REPO), "opendsm") + os.sep


class InjectedAbort(BaseException):
    """Marker base so that the harness can tell its own exception from a library one (never raised itself)."""


def _is_lib(code) -> bool:
    return code.co_filename.startswith(_LIB_PREFIX)


class EntryMonitor:
    """Counts entries of library functions (code objects under /repo/opendsm) and can raise or exit at the k-th.

    mode "count": only count.   mode "raise": raise exc at entry k.   mode "exit": os._exit(137) at entry k.
    """

    def __init__(self):
        self.count = 0
        self.k = None
        self.mode = "count"
        self.exc = None
        self.fired = False
        self.where = None

    def _cb(self, code, offset):
        if not _is_lib(code):
            return sys.monitoring.DISABLE
        self.count += 1
        if self.k is not None and self.count == self.k and not self.fired:
            self.fired = True
            self.where = f"{os.path.relpath(code.co_filename, _LIB_PREFIX)}:{code.co_name}"
            if self.mode == "exit":
                sys.stdout.flush()
                os._exit(137)
            if self.mode == "raise":
                raise self.exc
        return None

    def __enter__(self):
        mon = sys.monitoring
        if mon.get_tool(_TOOL) is None:
            mon.use_tool_id(_TOOL, "verif-sim")
        mon.register_callback(_TOOL, mon.events.PY_START, self._cb)
        mon.set_events(_TOOL, mon.events.PY_START)
        mon.restart_events()
        return self

    def __exit__(self, *a):
        mon = sys.monitoring
        mon.set_events(_TOOL, 0)
        mon.register_callback(_TOOL, mon.events.PY_START, None)
        mon.restart_events()
        return False


def count_entries(fn):
    """Run fn() and return (library-frame entries, outcome class)."""
    with EntryMonitor() as m:
        try:
            fn()
            cls = "returned"
        except Exception as e:  # noqa: BLE001
            cls = "raised:" + type(e).__name__
    return m.count, cls


EXC = {"MemoryError": MemoryError, "KeyboardInterrupt": KeyboardInterrupt, "OSError": OSError,
       "TimeoutError": TimeoutError}


def run_with_abort(fn, k: int, exc_name: str):
    """Run fn() raising exc at the k-th library-frame entry. Returns (monitor, result|None, raised exception|None)."""
    m = EntryMonitor()
    m.k = k
    m.mode = "raise"
    m.exc = EXC[exc_name](f"injected by simulator at library entry {k}")
    res = None
    err = None
    with m:
        try:
            res = fn()
        except BaseException as e:  # noqa: BLE001  (KeyboardInterrupt is one of the injected kinds)
            if isinstance(e, (SystemExit, GeneratorExit)):
                raise
            err = e
    return m, res, err


# ------------------------------------------------------------------ virtual clock


class VClock:
    """The only clock the library is allowed to read during a simulated op."""

    def __init__(self):
        self.now = 1000.0
        self.skew = 1.0
        self.reads = 0
        self.pending = []  # jumps applied at the next read
        self.stalled = 0

    def __call__(self):
        self.reads += 1
        if self.stalled > 0:
            self.stalled -= 1
            return self.now
        self.now += 0.001 * self.skew
        if self.pending:
            self.now += self.pending.pop(0)
        return self.now

    def advance(self, dt):
        self.now += dt * self.skew


def install_clock(clock: VClock):
    """Replace every clock the library can read by the virtual one: the module-level names bound to a clock function in
    any opendsm module (e.g. `from timeit import default_timer as timer`), and the functions of the `time` / `timeit`
    modules themselves for code that calls `time.time()`.  Done inside the run's own process only."""
    import sys
    import time
    import timeit

    real = {time.time, time.perf_counter, time.monotonic, timeit.default_timer, time.process_time}
    for name, mod in list(sys.modules.items()):
        if mod is None or not (name == "opendsm" or name.startswith("opendsm.")):
            continue
        for attr, val in list(vars(mod).items()):
            try:
                if val in real:
                    setattr(mod, attr, clock)
            except TypeError:
                pass
    clock.wall0 = 1_790_000_000.0

    def wall():
        return clock.wall0 + clock()

    time.time = wall
    time.perf_counter = clock
    time.monotonic = clock
    timeit.default_timer = clock


def native_clock():
    """Control words of the LD_PRELOAD clock shim in this process (None when the shim is not loaded)."""
    import ctypes

    try:
        lib = ctypes.CDLL(env.NATIVE_SHIM)
        if env.NATIVE_SHIM not in os.environ.get("LD_PRELOAD", ""):
            return None
        return (ctypes.c_longlong * 4).in_dll(lib, "verif_clock_ctl")
    except Exception:  # noqa: BLE001
        return None


def run_in_thread(fn):
    """Run fn() on a fresh OS thread (thread identity only; no concurrency)."""
    box = {}

    def target():
        try:
            box["res"] = fn()
        except BaseException as e:  # noqa: BLE001
            box["err"] = e

    t = threading.Thread(target=target, name="sim-pool-thread")
    t.start()
    t.join()
    if "err" in box:
        raise box["err"]
    return box.get("res")
