"""Oracles: turn the recorded history of one run into violations.

A violation is {prop, sig, seq, detail}.  `sig` names family, operation, failure class and the
attributes / JSON paths / columns involved — never values — so it is stable across seeds and specific
enough to tell two defects of the same property apart.  All comparisons upstream are exact.
"""
from __future__ import annotations

import json

from . import digest as D

FIT_DQ = {"daily": "eemeter.model_fit_metrics.cvrmse", "billing": "eemeter.model_fit_metrics.cvrmse",
          "hourly": "eemeter.model_fit_metrics"}


def flabel(fam, profile=None):
    if fam == "daily" and profile in ("legacy", "legacy_dev"):
        return "daily-legacy"
    return fam


def _cols(diff):
    out = []
    for k in diff:
        out.append(k[4:] if k.startswith("col:") else k)
    return "+".join(sorted(set(out))) or "frame"


def _v(prop, sig, ev, detail=None):
    return {"prop": prop, "sig": sig, "seq": ev["seq"], "detail": detail or {}}


def judge(events, outs):
    """Return (violations, keys, harness_errors, notes)."""
    V = []
    H = []
    notes = []
    keys = {}   # C03 key table of this run: key -> (value, seq, extra)

    def key_check(prop, key, value, ev, sig, extra=None):
        if key in keys:
            first = keys[key]
            if first[0] != value:
                V.append(_v(prop, sig(first), ev, {"first_seq": first[1], "key": key}))
        else:
            keys[key] = (value, ev["seq"], extra)

    for ev, out in zip(events, outs):
        kind = ev["kind"]
        a = ev.get("args", {})
        cls = out.get("class")
        if cls == "harness-error":
            H.append({"seq": ev["seq"], "error": out.get("error"), "trace": out.get("trace")})
            continue
        if cls in ("skipped", "catalogue-error", "crashed"):
            continue

        for b in out.get("documents_altered") or []:
            V.append(_v("C01", f"C01/{flabel(b.get('fam'), b.get('profile'))}/{kind.lower()}/stored-document-altered-later:"
                               f"{'+'.join(b['paths']) or 'document'}", ev, {"doc": b["doc"]}))
        for c in out.get("collateral") or []:
            by = "same-object-call" if c.get("own") else "other-call"
            V.append(_v("C02", f"C02/{flabel(c['fam'], c.get('profile'))}/{kind.lower()}/collateral-alters-{c['what']}:"
                               f"{'+'.join(c['paths']) or 'state'}@{by}", ev))

        if kind == "MAKE_DATA":
            dfam = out.get("dfam")
            if out.get("inputs_changed"):
                V.append(_v("C02", f"C02/{dfam}/make_data/alters-input:{'+'.join(out['inputs_changed'])}", ev))
            if out.get("freq_changed"):
                notes.append({"seq": ev["seq"], "note": "index .freq metadata of a caller frame changed"})
            if cls == "returned":
                key_check("C03", "data|" + out["rid"], out["digest"], ev,
                          lambda first: f"C03/{dfam}/make_data/differs")

        elif kind == "FIT":
            f = out["facts"]
            fam = f["fam"]
            fl = flabel(fam, f["profile"])
            if cls.startswith("construct-"):
                V.append(_v("C04", f"C04/{fl}/construct/{cls[10:]}@{f['profile']}", ev))
                continue
            if out.get("data_changed"):
                op = "fit-aborted" if out.get("aborted_op") else "fit"
                V.append(_v("C02", f"C02/{fl}/{op}/alters-data:{'+'.join(out['data_changed'])}", ev))
            if out.get("aborted_op") or cls == "aborted":
                continue
            if out.get("refused_keep") and out.get("gate0") is not None and fam != "caltrack":
                g0, g1 = out["gate0"], out["gate_after"]
                changed = [k for k in ("dq", "tz") if (sorted(g0[k]) if k == "dq" else g0[k]) != (sorted(g1[k]) if k == "dq" else g1[k])]
                if out.get("still_fitted") is False:
                    changed.append("fitted")
                if changed:
                    V.append(_v("C04", f"C04/{fl}/fit/refused/alters-gate-state:{'+'.join(changed)}", ev,
                                {"was": g0, "now": g1, "raised": cls}))
            arg_error = f.get("wrong_type") or (f.get("needs_ghi") and not f.get("has_ghi"))
            dq = bool(f.get("data_dq")) and fam != "caltrack"
            refit = ("@refit-after-failed-fit" if f.get("after_failed_fit") else "@refit-same-object") if f.get("reused") else ""
            if arg_error:
                if cls == "returned":
                    why = "wrong-type" if f.get("wrong_type") else "missing-ghi"
                    V.append(_v("C04", f"C04/{fl}/fit/{why}/no-raise", ev))
            elif dq and not f["ignore"]:
                if cls == "returned":
                    V.append(_v("C04", f"C04/{fl}/fit/dq/no-raise", ev))
                elif cls != "raised:DataSufficiencyError":
                    V.append(_v("C04", f"C04/{fl}/fit/dq/{cls}", ev, {"error": out.get("error")}))
            else:
                if cls != "returned":
                    V.append(_v("C04", f"C04/{fl}/fit/qualified/{cls}{refit}", ev, {"error": out.get("error"),
                                                                                     "profile": f["profile"]}))
            if cls == "returned":
                if out.get("twin_ok") is False:
                    H.append({"seq": ev["seq"], "error": "deep copy of a freshly fitted model is not faithful",
                              "detail": out.get("twin_error")})
                if out.get("doc_mode") != "json":
                    V.append(_v("C01", f"C01/{fl}/store/{out.get('doc_mode', '')}", ev))
                # the model's gate state: inherited disqualifications plus poor fit, nothing else
                if fam != "caltrack" and out.get("poor_fit") is not None:
                    want = sorted([w.get("qualified_name") for w in out["data_dq_before"]]
                                  + ([FIT_DQ[fam]] if out["poor_fit"] else []))
                    got = sorted(w.get("qualified_name") for w in out["gate"]["dq"])
                    if want != got:
                        V.append(_v("C04", f"C04/{fl}/fit/model-dq-mismatch", ev, {"want": want, "got": got}))
                if "fresh_class" in out and not arg_error:
                    if out["fresh_class"] != "returned":
                        V.append(_v("C03", f"C03/{fl}/fit/outcome-differs-from-fresh-object{refit}", ev,
                                    {"fresh": out["fresh_class"]}))
                    else:
                        if out.get("fresh_doc_same") is False:
                            V.append(_v("C03", f"C03/{fl}/fit/doc-differs-from-fresh-object:"
                                               f"{'+'.join(out.get('fresh_doc_paths') or [])}{refit}", ev))
                        fg = out["fresh_gate"]
                        got_dq = sorted(w.get("qualified_name") for w in out["gate"]["dq"])
                        if fam != "caltrack" and (sorted(fg["dq"]) != got_dq or fg["tz"] != out["gate"]["tz"]):
                            V.append(_v("C04", f"C04/{fl}/fit/gate-state-differs-from-fresh-object{refit}", ev,
                                        {"fresh": fg, "got": {"dq": got_dq, "tz": out["gate"]["tz"]}}))
                if not arg_error:
                    k = "fit|" + "|".join([fam, f["profile"], out["rid"], out["data_digest"], str(f["ignore"])])

                    def sig(first, out=out, fl=fl):
                        paths = []
                        try:
                            if first[2] and out.get("doc"):
                                paths = D.top_diff(json.loads(first[2]), json.loads(out["doc"]))
                        except Exception:  # noqa: BLE001
                            pass
                        return f"C03/{fl}/fit/doc-differs:{'+'.join(paths)}"

                    key_check("C03", k, out["doc_digest"], ev, sig, out.get("doc"))
            elif not arg_error:
                k = "fitcls|" + "|".join([fam, f["profile"], out["rid"], out["data_digest"], str(f["ignore"])])
                key_check("C03", k, cls, ev, lambda first, fl=fl, refit=refit: f"C03/{fl}/fit/outcome-differs{refit}")

        elif kind in ("PREDICT", "PREDICT_GRID") and out.get("limbo_probe"):
            lp = out["limbo_probe"]
            if cls == "returned":
                V.append(_v("C04", f"C04/{flabel(lp['fam'], lp['profile'])}/predict/after-interrupted-refit/dq/no-raise", ev,
                            {"was_disqualified_for": lp["prev_dq"]}))

        elif kind in ("PREDICT", "PREDICT_GRID"):
            f = out["facts"]
            fam = f["fam"]
            fl = flabel(fam, f["profile"])
            op = "predict-aborted" if out.get("aborted_op") else "predict"
            if out.get("model_changed"):
                V.append(_v("C02", f"C02/{fl}/{op}/alters-model:{'+'.join(out.get('model_changed_paths') or ['state'])}",
                            ev))
            if out.get("data_changed"):
                V.append(_v("C02", f"C02/{fl}/{op}/alters-data:{'+'.join(out['data_changed'])}", ev))
            if out.get("aborted_op") or cls == "aborted":
                continue
            # ---- C04 gate: the reference machine keeps its own memory of the object's gate state
            g0, g1 = f.get("gate0"), f.get("gate_now")
            model_dq = f["model_dq"]
            if g0 is not None and f["fitted"] and fam != "caltrack":
                changed = [k for k in ("dq", "tz") if (sorted(g0[k]) if k == "dq" else g0[k]) != (sorted(g1[k]) if k == "dq" else g1[k])]
                if changed:
                    V.append(_v("C04", f"C04/{fl}/gate-state/changed-by-history:{'+'.join(changed)}", ev,
                                {"was": g0, "now": g1}))
                model_dq = bool(g0["dq"])
            conds = []
            if fam == "caltrack":
                # the CalTRACK hourly wrapper has no gate (no flags, no timezone, no type check): §3/C04 excludes it
                f = dict(f, fitted=True, foreign_type=False, missing_feature=False)
            if not f["fitted"]:
                conds.append("unfitted")
            if f["foreign_type"]:
                conds.append("foreign-type")
            if f.get("missing_feature"):
                conds.append("missing-feature")
            model_tz = g0["tz"] if (g0 is not None and f["fitted"]) else f["model_tz"]
            if fam != "caltrack" and f["fitted"] and not f["foreign_type"] and model_tz != f["data_tz"]:
                conds.append("foreign-tz")
            dqc = fam != "caltrack" and f["fitted"] and model_dq and not f["ignore"]
            if conds or dqc:
                if cls == "returned":
                    V.append(_v("C04", f"C04/{fl}/predict/{(conds + ['dq'])[0]}/no-raise", ev, {"conds": conds, "dq": dqc}))
                elif dqc and not conds and cls != "raised:DisqualifiedModelError":
                    V.append(_v("C04", f"C04/{fl}/predict/dq/{cls}", ev, {"error": out.get("error")}))
            if cls == "raised:DisqualifiedModelError" and not dqc:
                V.append(_v("C04", f"C04/{fl}/predict/not-dq/raises:DisqualifiedModelError", ev))
            if not conds and not dqc and cls != "returned":
                notes.append({"seq": ev["seq"], "note": f"predict raised with no failing precondition: {cls}",
                              "error": out.get("error"), "fam": fam, "rid": out.get("rid")})
            # ---- C02 history independence (service twin) and C01 (store-time twin)
            if "ref_class" in out:
                if out["ref_class"] != cls:
                    V.append(_v("C02", f"C02/{fl}/predict/history-dependent:outcome", ev,
                                {"got": cls, "twin": out["ref_class"]}))
                elif out.get("ref_diff"):
                    V.append(_v("C02", f"C02/{fl}/predict/history-dependent:{_cols(out['ref_diff'])}", ev))
            if "pristine_class" in out:
                if out["pristine_class"] != cls:
                    V.append(_v("C02", f"C02/{fl}/predict/differs-from-pristine-process:outcome", ev,
                                {"got": cls, "pristine": out["pristine_class"]}))
                elif out.get("pristine_diff"):
                    V.append(_v("C02", f"C02/{fl}/predict/differs-from-pristine-process:{_cols(out['pristine_diff'])}", ev))
            if "store_ref_class" in out:
                if out["store_ref_class"] != cls:
                    V.append(_v("C01", f"C01/{fl}/restored/predict/outcome-differs", ev,
                                {"got": cls, "original": out["store_ref_class"]}))
                elif out.get("store_ref_diff"):
                    V.append(_v("C01", f"C01/{fl}/restored/predict/differs:{_cols(out['store_ref_diff'])}", ev))
            if out.get("live_original_diff"):
                V.append(_v("C01", f"C01/{fl}/restored/predict/differs-from-live-original:{_cols(out['live_original_diff'])}", ev))
            rd = out.get("reader")
            if rd and rd.get("bad"):
                V.append(_v("C01", f"C01/{fl}/predict/formula-differs:{'+'.join(rd['bad'])}", ev))
            if rd and rd.get("error"):
                notes.append({"seq": ev["seq"], "note": "independent reader could not evaluate the document: " + rd["error"]})
            # ---- C03 same model state, same reporting recipe -> same frame
            if cls == "returned" and out.get("state_mode") == "json":
                k = "pred|" + "|".join([out["model_digest"], out["rid"], str(f["ignore"]), str(a.get("agg"))])
                key_check("C03", k, out["frame"], ev, lambda first, fl=fl: f"C03/{fl}/predict/differs")

        elif kind == "ABORT_SWEEP":
            if cls != "done":
                continue
            fl = flabel(out["fam"], out["profile"])
            seen = set()
            for b in out.get("altered") or []:
                sg = f"C02/{fl}/predict-aborted/alters-model:{'+'.join(b['paths']) or 'state'}"
                if sg not in seen:
                    seen.add(sg)
                    V.append(_v("C02", sg, ev, {"abort_at_entry": b["k"], "where": b["where"], "of": out["entries"]}))
            if out.get("data_changed"):
                V.append(_v("C02", f"C02/{fl}/predict-aborted/alters-data:{'+'.join(out['data_changed'])}", ev))
            if out.get("later_differs"):
                b = out["later_differs"][0]
                V.append(_v("C02", f"C02/{fl}/predict-aborted/later-prediction-differs", ev,
                            {"abort_at_entry": b["k"], "where": b["where"], "of": out["entries"], "got": b["got"]}))

        elif kind == "FIT_ABORT_SWEEP":
            if cls != "done":
                continue
            fl = flabel(out["fam"], out["profile"])
            for b in out.get("data_altered") or []:
                V.append(_v("C02", f"C02/{fl}/fit-aborted/alters-data:{'+'.join(b['attrs'])}", ev,
                            {"abort_at_entry": b["k"], "where": b["where"], "of": out["entries"]}))

        elif kind == "SERIAL_ABORT_SWEEP":
            if cls != "done":
                continue
            fl = flabel(out["fam"], out["profile"])
            seen = set()
            for b in out.get("store_altered") or []:
                sg = f"C02/{fl}/store-aborted/alters-model:{'+'.join(b['paths']) or 'state'}"
                if sg not in seen:
                    seen.add(sg)
                    V.append(_v("C02", sg, ev, {"abort_at_entry": b["k"], "where": b["where"], "of": out["store_entries"]}))
            for b in out.get("doc_altered") or []:
                sg = f"C01/{fl}/load-aborted/alters-document:{'+'.join(b['paths']) or 'document'}"
                if sg not in seen:
                    seen.add(sg)
                    V.append(_v("C01", sg, ev, {"abort_at_entry": b["k"], "where": b["where"], "of": out["load_entries"]}))
            if out.get("later_load"):
                b = out["later_load"][0]
                V.append(_v("C01", f"C01/{fl}/load-aborted/later-load-differs", ev,
                            {"abort_at_entry": b["k"], "where": b["where"], "of": out["load_entries"], "got": b["got"]}))

        elif kind == "PREDICT_PAIR":
            if cls != "done" or not out.get("covers"):
                continue
            fl = out["fam"]
            ca, cb = out["classes"]
            alt = out["alter"]
            how = ("data-" + "+".join(out["via_data"])) if out.get("via_data") else "model"
            if out.get("reads") == "offset":
                how += "@offset-reads"
            if out.get("via_data") and out.get("rows_where"):
                # where in the period the differing rows lie: only days whose UTC offset differs from the period's first
                # day or that sit next to an offset change ("dst"), those plus the period's edge days, or ordinary
                # interior days as well
                rows = set(out["rows_where"].split("+"))
                how += "@rows=" + ("dst" if rows <= {"shifted", "transition"} else
                                   "edge+dst" if rows <= {"shifted", "transition", "edge"} else "interior")
                if (a.get("recipe") or {}).get("entry") in ("frame", "frame_col"):
                    how += "@daily-frame"
            if out.get("after_altered_same") is False:
                V.append(_v("C05", f"C05/{fl}/pair/{alt}/earlier-usage-leaks:{_cols(out.get('after_altered_diff') or [])}", ev,
                            out.get("history")))
            if out.get("agg") and alt in ("allnan", "absent") and ca == "returned" and cb == "raised:KeyError":
                # aggregating needs usage to aggregate: with none at all the library produces no aggregated frame
                # (recorded observation, DESIGN §5); if it does produce one it is compared like any other
                notes.append({"seq": ev["seq"], "note": "aggregated billing prediction without usage: none produced (KeyError)"})
            elif ca != cb:
                V.append(_v("C05", f"C05/{fl}/pair/{alt}/outcome-differs:{ca}|{cb}", ev, out.get("history")))
            elif ca == "returned":
                if out.get("n_missing"):
                    V.append(_v("C05", f"C05/{fl}/pair/{alt}/prediction-missing", ev, {"n": out["n_missing"], **out.get("history", {})}))
                if out.get("n_differ"):
                    V.append(_v("C05", f"C05/{fl}/pair/{alt}/predicted-differs:{how}", ev,
                                {"n": out["n_differ"], "max_abs_diff": out["max_abs_diff"], "rows": out.get("rows_where"),
                                 "entry": (a.get("recipe") or {}).get("entry"), "feed": (a.get("recipe") or {}).get("feed"),
                                 "tz": (a.get("recipe") or {}).get("tz"), "span": (a.get("recipe") or {}).get("span"),
                                 "dup": (a.get("recipe") or {}).get("dup"), **out.get("history", {})}))
                elif out.get("other_cols_differ"):
                    V.append(_v("C05", f"C05/{fl}/pair/{alt}/columns-differ:{'+'.join(out['other_cols_differ'])}:{how}", ev))

        elif kind == "SCRIBBLE_DATA":
            if out.get("changed"):
                V.append(_v("C02", f"C02/{out['dfam']}/df/not-independent:{'+'.join(out['changed'])}", ev))

        elif kind == "SCRIBBLE_PRED":
            if out.get("model_changed"):
                V.append(_v("C02", f"C02/{out['fam']}/prediction/not-independent:model", ev))
            if out.get("data_changed"):
                V.append(_v("C02", f"C02/{out['fam']}/prediction/not-independent:data", ev))

        elif kind == "INSPECT":
            if out.get("model_changed"):
                V.append(_v("C02", f"C02/{out['fam']}/inspect/alters-model", ev))

        elif kind == "STORE":
            fl = flabel(out["fam"], out["profile"])
            who = "restored/" if out.get("gen", 0) > 0 else ""
            if cls != "returned":
                V.append(_v("C01", f"C01/{fl}/{who}store/{cls.replace('raised:', 'raises:')}", ev, {"error": out.get("error")}))
                continue
            if out.get("restore_same") is False:
                V.append(_v("C02", f"C02/{fl}/store/alters-model", ev))
                if out.get("form") == "dict":
                    V.append(_v("C01", f"C01/{fl}/store/document-aliases-model", ev))
            if out.get("same_as_fit") is False:
                V.append(_v("C03", f"C03/{fl}/store/doc-differs-from-fit:{'+'.join(out.get('fit_diff_paths', []))}", ev))
            if out.get("same_as_origin") is False:
                V.append(_v("C01", f"C01/{fl}/restored/store/doc-differs:{'+'.join(out.get('origin_diff_paths', []))}", ev))

        elif kind == "LOAD":
            fl = flabel(out["fam"], out["profile"])
            if cls != "returned":
                V.append(_v("C01", f"C01/{fl}/load/{cls.replace('raised:', 'raises:')}", ev, {"error": out.get("error"), "form": out.get("form")}))
                continue
            if out.get("document_changed"):
                V.append(_v("C01", f"C01/{fl}/load/alters-document:{'+'.join(out.get('document_changed_paths', []))}", ev))
            g, g0 = out["gate"], out["gate_at_store"]
            diff = [k for k in ("dq", "warnings", "tz") if g[k] != g0[k]]
            if diff:
                V.append(_v("C01", f"C01/{fl}/restored/attr-differs:{'+'.join(diff)}", ev))
            if bool(g["dq"]) != bool(g0["dq"]) or sorted(w.get("qualified_name", "") for w in g["dq"]) != sorted(
                    w.get("qualified_name", "") for w in g0["dq"]):
                V.append(_v("C04", f"C04/{fl}/load/dq-changed", ev))
            mode = out.get("restore_mode", "json")
            if mode != "json":
                V.append(_v("C01", f"C01/{fl}/restored/store/{mode}", ev))
            elif out.get("redoc_same") is False:
                V.append(_v("C01", f"C01/{fl}/restored/store/doc-differs:{'+'.join(out.get('redoc_diff_paths', []))}", ev))

    return V, keys, H, notes
